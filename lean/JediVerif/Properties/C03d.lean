/-
C03 (continued) — the large ARMv6-M (Thumb-1) routines of /repo/src/core/arch/armv6_m/multiply.s.

Instruction-level, for ALL inputs.  The programs are the ones regenerated from the sources on every check
(`JediVerif/Gen/AsmV6M.lean`, produced by translate/arm2lean.py), executed by the machine model of `JediVerif/Impl/Thumb1.lean`.
For every state `s` that satisfies AAPCS at the routine's entry (arguments in R0–R3, any pointer values, any memory contents, any
values in the other registers, the flags unknown; the objects 4-byte aligned, inside the address space, readable / writable as the C
signature says; LR a Thumb address; SP 4-byte aligned with room for the words the routine pushes and for its 96-byte product
buffer; every object disjoint from that frame), running the program with any fuel ≥ its length
  (1) returns properly (`Thumb1.Returned`: halted by a branch to the address in LR, SP as at entry, R4–R11 intact; no fault on
      the way: no unaligned or unpermitted access, no use of an unknown flag — the divided-syntax `mov lo, lo` makes the flags
      unknown in the model —, no switch to ARM state),
  (2) leaves in `res` the Nat-level contract of `Properties/C02.lean` / `C03.lean` / `C03c.lean`,
  (3) hence the same limbs as the portable model at base 2^32 (`…_eq_portable`) and the same number as the AArch64 routine
      (`…_agrees_aarch64`),
  (4) writes nothing but `res` and its own frame below SP.

Aliasing.  All five routines build their result in a buffer on the stack and write `res` at the very end: `res` may overlap the
operands (and the modulus) in ANY way.

`bigint_768_multiply` shares its prologue with `fpbase_384_multiply` and executes `ldr r4, [sp, #36]` (the word at the entry SP, i.e.
a word of the CALLER's frame) although it has no stack argument; the value is not used, but the word must be readable
(hypothesis `hcw`).

The three Montgomery routines end with `bl embedded_pairing_core_arch_armv6_m_fpbase_384_reduce` (fp.cpp: `res->reduce(*a, *p)`), which the
machine model executes by its C++ meaning (both 12-word objects are read, then `a` or `a − p` is stored): `res` may therefore overlap `p`
as far as these theorems go; what C++ does for a partial overlap of `res` and `p` is outside the model.  The call is made with
SP = entry SP − 132, i.e. SP ≡ 4 (mod 8) when the entry SP is 8-byte aligned as AAPCS demands — AAPCS asks for 8-byte alignment at
a public interface; the last conjunct of the three theorems says exactly when the model's `callSpMisaligned` flag is raised.

Proofs: `JediVerif/Proofs/Thumb1Mul{Infra,Code,Macros,Rows,Mul,SqrRows,Sqr,MontRows,Extern,Mont,Fp}.lean` — the 32×32→64 macro block is given a contract once
(`Thumb1.macMulAC_spec`, …), rows are compositions proved once for a symbolic row index, routines are compositions of rows.
-/
import JediVerif.Proofs.Thumb1MulFp
import JediVerif.Properties.C03c

set_option exponentiation.threshold 800

namespace Jedi.C03
open Jedi Jedi.Impl
open Jedi.X86 (limbs limbs_WF limbs_length)
open Jedi.Gen.AsmV6M

private theorem pow32_12' : ((2 : ℕ) ^ 32) ^ 12 = 2 ^ 384 := by rw [← Nat.pow_mul]
private theorem pow64_6'' : ((2 : ℕ) ^ 64) ^ 6 = 2 ^ 384 := by rw [← Nat.pow_mul]

private theorem limbs32_lt' (m : Nat → Thumb1.Word) (p : Nat) : val (2 ^ 32) (Thumb1.limbs32 m p 12) < 2 ^ 384 := by
  have := val_lt (Thumb1.limbs32_WF m p 12); rwa [Thumb1.limbs32_length, pow32_12'] at this

/-- two residues `< P` of the same `T·2^{-384}` are equal (`2^384` is invertible modulo `P` because `inv·P ≡ −1 mod 2^32`) -/
private theorem mont_unique {P T x y inv : Nat} (hinv : (inv * P + 1) % 2 ^ 32 = 0) (hx : x < P) (hy : y < P)
    (hxm : (x * 2 ^ 384) % P = T % P) (hym : (y * 2 ^ 384) % P = T % P) : x = y := by
  have hc : Nat.gcd P (2 ^ 384) = 1 := by have := coprime_of_inv hinv 12; rwa [pow32_12'] at this
  have := eq_mod_of_mul_R hc hx (hxm.trans hym.symm)
  rwa [Nat.mod_eq_of_lt hy] at this

/-! ## BigInt<768> = BigInt<384> × BigInt<384>, BigInt<384>² -/

/-- ARMv6-M `bigint_768_multiply`: `res = a · b` (twenty-four 32-bit limbs); `res` may overlap `a`, `b` in any way. -/
theorem armv6m_bigint_768_multiply (s : Thumb1.State) (pr pa pb : Thumb1.Word) (fuel : Nat) (hfuel : 3593 ≤ fuel)
    (hst : s.status = .running) (hpc : s.pc = 0) (h0 : s.r0 = pr) (h1 : s.r1 = pa) (h2 : s.r2 = pb) (hlr : s.lr.toNat % 2 = 1) (hr : Thumb1.Buf s pr 24 true) (ha : Thumb1.Buf s pa 12 false)
    (hb : Thumb1.Buf s pb 12 false) (hstk : Thumb1.Stack s 33) (hcw : s.readable s.sp.toNat = true) (hrs : Thumb1.OffStack s 33 pr 24) (has : Thumb1.OffStack s 33 pa 12)
    (hbs : Thumb1.OffStack s 33 pb 12) :
    Thumb1.Returned s (Thumb1.run embedded_pairing_core_arch_armv6_m_bigint_768_multiply s fuel) ∧
    val (2 ^ 32) (Thumb1.limbs32 (Thumb1.run embedded_pairing_core_arch_armv6_m_bigint_768_multiply s fuel).mem pr.toNat 24)
      = val (2 ^ 32) (Thumb1.limbs32 s.mem pa.toNat 12) * val (2 ^ 32) (Thumb1.limbs32 s.mem pb.toNat 12) ∧
    (∀ k, ¬(pr.toNat ≤ k ∧ k < pr.toNat + 96) → ¬(s.sp.toNat - 132 ≤ k ∧ k < s.sp.toNat) →
      (Thumb1.run embedded_pairing_core_arch_armv6_m_bigint_768_multiply s fuel).mem k = s.mem k) := by
  obtain ⟨s', h, hret, rest⟩ := Thumb1.bigint_768_multiply_run s pr pa pb hst hpc h0 h1 h2 hlr hr ha hb hstk hcw hrs has hbs
  rw [Thumb1.run_fuel h hret.halted fuel hfuel]
  exact ⟨hret, rest⟩

/-- … hence the limbs of the portable `BigInt::multiply` at base 2^32 (model `mulLoop`, contract `C02.bigint_multiply`). -/
theorem armv6m_bigint_768_multiply_eq_portable (s : Thumb1.State) (pr pa pb : Thumb1.Word) (fuel : Nat) (hfuel : 3593 ≤ fuel)
    (hst : s.status = .running) (hpc : s.pc = 0) (h0 : s.r0 = pr) (h1 : s.r1 = pa) (h2 : s.r2 = pb) (hlr : s.lr.toNat % 2 = 1) (hr : Thumb1.Buf s pr 24 true) (ha : Thumb1.Buf s pa 12 false)
    (hb : Thumb1.Buf s pb 12 false) (hstk : Thumb1.Stack s 33) (hcw : s.readable s.sp.toNat = true) (hrs : Thumb1.OffStack s 33 pr 24) (has : Thumb1.OffStack s 33 pa 12)
    (hbs : Thumb1.OffStack s 33 pb 12) :
    Thumb1.limbs32 (Thumb1.run embedded_pairing_core_arch_armv6_m_bigint_768_multiply s fuel).mem pr.toNat 24
      = mulLoop (2 ^ 32) (Thumb1.limbs32 s.mem pa.toNat 12) (Thumb1.limbs32 s.mem pb.toNat 12) := by
  obtain ⟨-, hv, -⟩ := armv6m_bigint_768_multiply s pr pa pb fuel hfuel hst hpc h0 h1 h2 hlr hr ha hb hstk hcw hrs has hbs
  obtain ⟨w, l, v⟩ := C02.bigint_multiply (B := 2 ^ 32) (by norm_num) (Thumb1.limbs32_WF s.mem pa.toNat 12)
    (Thumb1.limbs32_WF s.mem pb.toNat 12)
  exact val_inj (Thumb1.limbs32_WF _ _ _) w (by rw [l, Thumb1.limbs32_length, Thumb1.limbs32_length, Thumb1.limbs32_length]) (by rw [hv, v])

/-- … and the number the AArch64 routine (`C03.aarch64_bigint_768_multiply`) leaves in its twelve 64-bit limbs, on states whose operands
have the same values. -/
theorem armv6m_bigint_768_multiply_agrees_aarch64 (s₁ : Thumb1.State) (s₂ : A64.State) (pr₁ pa₁ pb₁ : Thumb1.Word) (pr₂ pa₂ pb₂ : A64.Word)
    (f₁ f₂ : Nat) (hf₁ : 3593 ≤ f₁) (hf₂ : 187 ≤ f₂)
    (hst₁ : s₁.status = .running) (hpc₁ : s₁.pc = 0) (h0₁ : s₁.r0 = pr₁) (h1₁ : s₁.r1 = pa₁) (h2₁ : s₁.r2 = pb₁) (hlr₁ : s₁.lr.toNat % 2 = 1) (hr₁ : Thumb1.Buf s₁ pr₁ 24 true)
    (ha₁ : Thumb1.Buf s₁ pa₁ 12 false) (hb₁ : Thumb1.Buf s₁ pb₁ 12 false) (hstk₁ : Thumb1.Stack s₁ 33) (hcw₁ : s₁.readable s₁.sp.toNat = true) (hrs₁ : Thumb1.OffStack s₁ 33 pr₁ 24)
    (has₁ : Thumb1.OffStack s₁ 33 pa₁ 12) (hbs₁ : Thumb1.OffStack s₁ 33 pb₁ 12)
    (hst₂ : s₂.status = .running) (hpc₂ : s₂.pc = 0) (h0₂ : s₂.x0 = pr₂) (h1₂ : s₂.x1 = pa₂) (h2₂ : s₂.x2 = pb₂)
    (hr₂ : A64.Buf s₂ pr₂ 12 true) (ha₂ : A64.Buf s₂ pa₂ 6 false) (hb₂ : A64.Buf s₂ pb₂ 6 false)
    (hstk₂ : A64.Stack s₂ 5) (hrs₂ : A64.OffStack s₂ 5 pr₂ 12) (has₂ : A64.OffStack s₂ 5 pa₂ 6) (hbs₂ : A64.OffStack s₂ 5 pb₂ 6)
    (hA : val (2 ^ 32) (Thumb1.limbs32 s₁.mem pa₁.toNat 12) = val (2 ^ 64) (limbs s₂.mem pa₂.toNat 6))
    (hB : val (2 ^ 32) (Thumb1.limbs32 s₁.mem pb₁.toNat 12) = val (2 ^ 64) (limbs s₂.mem pb₂.toNat 6)) :
    val (2 ^ 32) (Thumb1.limbs32 (Thumb1.run embedded_pairing_core_arch_armv6_m_bigint_768_multiply s₁ f₁).mem pr₁.toNat 24)
      = val (2 ^ 64) (limbs (A64.run Gen.AsmA64.embedded_pairing_core_arch_aarch64_bigint_768_multiply s₂ f₂).mem pr₂.toNat 12) := by
  obtain ⟨-, v1, -⟩ := armv6m_bigint_768_multiply s₁ pr₁ pa₁ pb₁ f₁ hf₁ hst₁ hpc₁ h0₁ h1₁ h2₁ hlr₁ hr₁ ha₁ hb₁ hstk₁ hcw₁ hrs₁ has₁ hbs₁
  obtain ⟨-, v2, -⟩ := aarch64_bigint_768_multiply s₂ pr₂ pa₂ pb₂ f₂ hf₂ hst₂ hpc₂ h0₂ h1₂ h2₂ hr₂ ha₂ hb₂ hstk₂ hrs₂ has₂ hbs₂
  rw [v1, v2, hA, hB]

/-- ARMv6-M `bigint_768_square`: `res = a²` (twenty-four 32-bit limbs); `res` may overlap `a` in any way. -/
theorem armv6m_bigint_768_square (s : Thumb1.State) (pr pa : Thumb1.Word) (fuel : Nat) (hfuel : 1925 ≤ fuel)
    (hst : s.status = .running) (hpc : s.pc = 0) (h0 : s.r0 = pr) (h1 : s.r1 = pa) (hlr : s.lr.toNat % 2 = 1) (hr : Thumb1.Buf s pr 24 true) (ha : Thumb1.Buf s pa 12 false)
    (hstk : Thumb1.Stack s 32) (hrs : Thumb1.OffStack s 32 pr 24) (has : Thumb1.OffStack s 32 pa 12) :
    Thumb1.Returned s (Thumb1.run embedded_pairing_core_arch_armv6_m_bigint_768_square s fuel) ∧
    val (2 ^ 32) (Thumb1.limbs32 (Thumb1.run embedded_pairing_core_arch_armv6_m_bigint_768_square s fuel).mem pr.toNat 24)
      = val (2 ^ 32) (Thumb1.limbs32 s.mem pa.toNat 12) * val (2 ^ 32) (Thumb1.limbs32 s.mem pa.toNat 12) ∧
    (∀ k, ¬(pr.toNat ≤ k ∧ k < pr.toNat + 96) → ¬(s.sp.toNat - 128 ≤ k ∧ k < s.sp.toNat) →
      (Thumb1.run embedded_pairing_core_arch_armv6_m_bigint_768_square s fuel).mem k = s.mem k) := by
  obtain ⟨s', h, hret, rest⟩ := Thumb1.bigint_768_square_run s pr pa hst hpc h0 h1 hlr hr ha hstk hrs has
  rw [Thumb1.run_fuel h hret.halted fuel hfuel]
  exact ⟨hret, rest⟩

/-- … hence the limbs of the portable `BigInt::square` at base 2^32 (model `sqrLoop`, contract `C02.bigint_square`) — and of `multiply(a, a)`. -/
theorem armv6m_bigint_768_square_eq_portable (s : Thumb1.State) (pr pa : Thumb1.Word) (fuel : Nat) (hfuel : 1925 ≤ fuel)
    (hst : s.status = .running) (hpc : s.pc = 0) (h0 : s.r0 = pr) (h1 : s.r1 = pa) (hlr : s.lr.toNat % 2 = 1) (hr : Thumb1.Buf s pr 24 true) (ha : Thumb1.Buf s pa 12 false)
    (hstk : Thumb1.Stack s 32) (hrs : Thumb1.OffStack s 32 pr 24) (has : Thumb1.OffStack s 32 pa 12) :
    Thumb1.limbs32 (Thumb1.run embedded_pairing_core_arch_armv6_m_bigint_768_square s fuel).mem pr.toNat 24
      = sqrLoop (2 ^ 32) (Thumb1.limbs32 s.mem pa.toNat 12) := by
  obtain ⟨-, hv, -⟩ := armv6m_bigint_768_square s pr pa fuel hfuel hst hpc h0 h1 hlr hr ha hstk hrs has
  obtain ⟨w, l, v⟩ := C02.bigint_square (B := 2 ^ 32) (by norm_num) (Thumb1.limbs32_WF s.mem pa.toNat 12)
    (by rw [Thumb1.limbs32_length]; omega)
  exact val_inj (Thumb1.limbs32_WF _ _ _) w (by rw [l, Thumb1.limbs32_length, Thumb1.limbs32_length]) (by rw [hv, v])

/-- … and the number the AArch64 routine (`C03.aarch64_bigint_768_square`) leaves, on states whose operand has the same value. -/
theorem armv6m_bigint_768_square_agrees_aarch64 (s₁ : Thumb1.State) (s₂ : A64.State) (pr₁ pa₁ : Thumb1.Word) (pr₂ pa₂ : A64.Word)
    (f₁ f₂ : Nat) (hf₁ : 1925 ≤ f₁) (hf₂ : 110 ≤ f₂)
    (hst₁ : s₁.status = .running) (hpc₁ : s₁.pc = 0) (h0₁ : s₁.r0 = pr₁) (h1₁ : s₁.r1 = pa₁) (hlr₁ : s₁.lr.toNat % 2 = 1) (hr₁ : Thumb1.Buf s₁ pr₁ 24 true) (ha₁ : Thumb1.Buf s₁ pa₁ 12 false)
    (hstk₁ : Thumb1.Stack s₁ 32) (hrs₁ : Thumb1.OffStack s₁ 32 pr₁ 24) (has₁ : Thumb1.OffStack s₁ 32 pa₁ 12)
    (hst₂ : s₂.status = .running) (hpc₂ : s₂.pc = 0) (h0₂ : s₂.x0 = pr₂) (h1₂ : s₂.x1 = pa₂)
    (hr₂ : A64.Buf s₂ pr₂ 12 true) (ha₂ : A64.Buf s₂ pa₂ 6 false)
    (hstk₂ : A64.Stack s₂ 2) (hrs₂ : A64.OffStack s₂ 2 pr₂ 12) (has₂ : A64.OffStack s₂ 2 pa₂ 6)
    (hA : val (2 ^ 32) (Thumb1.limbs32 s₁.mem pa₁.toNat 12) = val (2 ^ 64) (limbs s₂.mem pa₂.toNat 6)) :
    val (2 ^ 32) (Thumb1.limbs32 (Thumb1.run embedded_pairing_core_arch_armv6_m_bigint_768_square s₁ f₁).mem pr₁.toNat 24)
      = val (2 ^ 64) (limbs (A64.run Gen.AsmA64.embedded_pairing_core_arch_aarch64_bigint_768_square s₂ f₂).mem pr₂.toNat 12) := by
  obtain ⟨-, v1, -⟩ := armv6m_bigint_768_square s₁ pr₁ pa₁ f₁ hf₁ hst₁ hpc₁ h0₁ h1₁ hlr₁ hr₁ ha₁ hstk₁ hrs₁ has₁
  obtain ⟨-, v2, -⟩ := aarch64_bigint_768_square s₂ pr₂ pa₂ f₂ hf₂ hst₂ hpc₂ h0₂ h1₂ hr₂ ha₂ hstk₂ hrs₂ has₂
  rw [v1, v2, hA]

/-! ## FpBase<384>::montgomery_reduce -/

/-- ARMv6-M `fpbase_384_montgomery_reduce`: `res < P` and `res · 2^384 ≡ T (mod P)`; `res` may overlap `T` in any way.
Side conditions as for the other back ends: `inv·P ≡ −1 (mod 2^32)`, `T < P·2^384`, `2P ≤ 2^384` (the meta-carry out of the last row is dropped,
and `fpbase_384_reduce` subtracts `P` at most once). -/
theorem armv6m_fpbase_384_montgomery_reduce (s : Thumb1.State) (pr pt pp inv : Thumb1.Word) (fuel : Nat) (hfuel : 3567 ≤ fuel)
    (hst : s.status = .running) (hpc : s.pc = 0) (h0 : s.r0 = pr) (h1 : s.r1 = pt) (h2 : s.r2 = pp) (h3 : s.r3 = inv) (hlr : s.lr.toNat % 2 = 1) (hr : Thumb1.Buf s pr 12 true)
    (ht : Thumb1.Buf s pt 24 false) (hp : Thumb1.Buf s pp 12 false) (hstk : Thumb1.Stack s 33) (hrs : Thumb1.OffStack s 33 pr 12) (hts : Thumb1.OffStack s 33 pt 24)
    (hps : Thumb1.OffStack s 33 pp 12) (hinv : (inv.toNat * val (2 ^ 32) (Thumb1.limbs32 s.mem pp.toNat 12) + 1) % 2 ^ 32 = 0) (hT : val (2 ^ 32) (Thumb1.limbs32 s.mem pt.toNat 24) < val (2 ^ 32) (Thumb1.limbs32 s.mem pp.toNat 12) * 2 ^ 384)
    (h2P : 2 * val (2 ^ 32) (Thumb1.limbs32 s.mem pp.toNat 12) ≤ 2 ^ 384) :
    Thumb1.Returned s (Thumb1.run embedded_pairing_core_arch_armv6_m_fpbase_384_montgomery_reduce s fuel) ∧
    val (2 ^ 32) (Thumb1.limbs32 (Thumb1.run embedded_pairing_core_arch_armv6_m_fpbase_384_montgomery_reduce s fuel).mem pr.toNat 12) < val (2 ^ 32) (Thumb1.limbs32 s.mem pp.toNat 12) ∧
    (val (2 ^ 32) (Thumb1.limbs32 (Thumb1.run embedded_pairing_core_arch_armv6_m_fpbase_384_montgomery_reduce s fuel).mem pr.toNat 12) * 2 ^ 384) % val (2 ^ 32) (Thumb1.limbs32 s.mem pp.toNat 12)
      = (val (2 ^ 32) (Thumb1.limbs32 s.mem pt.toNat 24)) % val (2 ^ 32) (Thumb1.limbs32 s.mem pp.toNat 12) ∧
    (∀ k, ¬(pr.toNat ≤ k ∧ k < pr.toNat + 48) → ¬(s.sp.toNat - 132 ≤ k ∧ k < s.sp.toNat) →
      (Thumb1.run embedded_pairing_core_arch_armv6_m_fpbase_384_montgomery_reduce s fuel).mem k = s.mem k) ∧
    (Thumb1.run embedded_pairing_core_arch_armv6_m_fpbase_384_montgomery_reduce s fuel).callSpMisaligned = (s.callSpMisaligned || (s.sp.toNat - 132) % 8 != 0) := by
  obtain ⟨s', h, hret, rest⟩ := Thumb1.fpbase_384_montgomery_reduce_run s pr pt pp inv hst hpc h0 h1 h2 h3 hlr hr ht hp hstk hrs hts hps hinv hT h2P
  rw [Thumb1.run_fuel h hret.halted fuel hfuel]
  exact ⟨hret, rest⟩

/-- … hence the limbs of the portable `FpBase::montgomery_reduce` at base 2^32 (model `montReduce`, contract `C02.montgomery_reduce`). -/
theorem armv6m_fpbase_384_montgomery_reduce_eq_portable (s : Thumb1.State) (pr pt pp inv : Thumb1.Word) (fuel : Nat) (hfuel : 3567 ≤ fuel)
    (hst : s.status = .running) (hpc : s.pc = 0) (h0 : s.r0 = pr) (h1 : s.r1 = pt) (h2 : s.r2 = pp) (h3 : s.r3 = inv) (hlr : s.lr.toNat % 2 = 1) (hr : Thumb1.Buf s pr 12 true)
    (ht : Thumb1.Buf s pt 24 false) (hp : Thumb1.Buf s pp 12 false) (hstk : Thumb1.Stack s 33) (hrs : Thumb1.OffStack s 33 pr 12) (hts : Thumb1.OffStack s 33 pt 24)
    (hps : Thumb1.OffStack s 33 pp 12) (hinv : (inv.toNat * val (2 ^ 32) (Thumb1.limbs32 s.mem pp.toNat 12) + 1) % 2 ^ 32 = 0) (hT : val (2 ^ 32) (Thumb1.limbs32 s.mem pt.toNat 24) < val (2 ^ 32) (Thumb1.limbs32 s.mem pp.toNat 12) * 2 ^ 384)
    (h2P : 2 * val (2 ^ 32) (Thumb1.limbs32 s.mem pp.toNat 12) ≤ 2 ^ 384) :
    Thumb1.limbs32 (Thumb1.run embedded_pairing_core_arch_armv6_m_fpbase_384_montgomery_reduce s fuel).mem pr.toNat 12
      = montReduce (2 ^ 32) 12 (Thumb1.limbs32 s.mem pt.toNat 24) (Thumb1.limbs32 s.mem pp.toNat 12) inv.toNat := by
  obtain ⟨-, hlt, hmod, -⟩ := armv6m_fpbase_384_montgomery_reduce s pr pt pp inv fuel hfuel hst hpc h0 h1 h2 h3 hlr hr ht hp hstk hrs hts hps hinv hT h2P
  obtain ⟨w, l, plt, pmod⟩ := C02.montgomery_reduce (B := 2 ^ 32) (n := 12) (inv := inv.toNat)
    (Thumb1.limbs32_WF s.mem pt.toNat 24) (Thumb1.limbs32_WF s.mem pp.toNat 12) (Thumb1.limbs32_length _ _ _) (by omega) (Thumb1.limbs32_length _ _ _) hinv
    (by rw [pow32_12']; exact hT) (by rw [pow32_12']; exact h2P)
  rw [pow32_12'] at pmod
  exact val_inj (Thumb1.limbs32_WF _ _ _) w (by rw [l, Thumb1.limbs32_length]) (mont_unique hinv hlt plt hmod pmod)

/-- … and the number the AArch64 routine (`C03.aarch64_fpbase_384_montgomery_reduce`) leaves, on states with the same `T` and `P` (each
with its own `inv`: `inv₁·P ≡ −1 mod 2^32`, `inv₂·P ≡ −1 mod 2^64`). -/
theorem armv6m_fpbase_384_montgomery_reduce_agrees_aarch64 (s₁ : Thumb1.State) (s₂ : A64.State) (pr₁ pt₁ pp₁ inv₁ : Thumb1.Word) (pr₂ pt₂ pp₂ inv₂ : A64.Word)
    (f₁ f₂ : Nat) (hf₁ : 3567 ≤ f₁) (hf₂ : 239 ≤ f₂)
    (hst₁ : s₁.status = .running) (hpc₁ : s₁.pc = 0) (h0₁ : s₁.r0 = pr₁) (h1₁ : s₁.r1 = pt₁) (h2₁ : s₁.r2 = pp₁) (h3₁ : s₁.r3 = inv₁) (hlr₁ : s₁.lr.toNat % 2 = 1)
    (hr₁ : Thumb1.Buf s₁ pr₁ 12 true) (ht₁ : Thumb1.Buf s₁ pt₁ 24 false) (hp₁ : Thumb1.Buf s₁ pp₁ 12 false) (hstk₁ : Thumb1.Stack s₁ 33) (hrs₁ : Thumb1.OffStack s₁ 33 pr₁ 12)
    (hts₁ : Thumb1.OffStack s₁ 33 pt₁ 24) (hps₁ : Thumb1.OffStack s₁ 33 pp₁ 12) (hinv₁ : (inv₁.toNat * val (2 ^ 32) (Thumb1.limbs32 s₁.mem pp₁.toNat 12) + 1) % 2 ^ 32 = 0)
    (hT₁ : val (2 ^ 32) (Thumb1.limbs32 s₁.mem pt₁.toNat 24) < val (2 ^ 32) (Thumb1.limbs32 s₁.mem pp₁.toNat 12) * 2 ^ 384) (h2P₁ : 2 * val (2 ^ 32) (Thumb1.limbs32 s₁.mem pp₁.toNat 12) ≤ 2 ^ 384)
    (hst₂ : s₂.status = .running) (hpc₂ : s₂.pc = 0) (h0₂ : s₂.x0 = pr₂) (h1₂ : s₂.x1 = pt₂) (h2₂ : s₂.x2 = pp₂) (h3₂ : s₂.x3 = inv₂)
    (hr₂ : A64.Buf s₂ pr₂ 6 true) (ht₂ : A64.Buf s₂ pt₂ 12 false) (hp₂ : A64.Buf s₂ pp₂ 6 false)
    (hstk₂ : A64.Stack s₂ 4) (hrs₂ : A64.OffStack s₂ 4 pr₂ 6) (hts₂ : A64.OffStack s₂ 4 pt₂ 12) (hps₂ : A64.OffStack s₂ 4 pp₂ 6)
    (hinv₂ : (inv₂.toNat * val (2 ^ 64) (limbs s₂.mem pp₂.toNat 6) + 1) % 2 ^ 64 = 0)
    (hTe : val (2 ^ 32) (Thumb1.limbs32 s₁.mem pt₁.toNat 24) = val (2 ^ 64) (limbs s₂.mem pt₂.toNat 12))
    (hPe : val (2 ^ 32) (Thumb1.limbs32 s₁.mem pp₁.toNat 12) = val (2 ^ 64) (limbs s₂.mem pp₂.toNat 6)) :
    val (2 ^ 32) (Thumb1.limbs32 (Thumb1.run embedded_pairing_core_arch_armv6_m_fpbase_384_montgomery_reduce s₁ f₁).mem pr₁.toNat 12)
      = val (2 ^ 64) (limbs (A64.run Gen.AsmA64.embedded_pairing_core_arch_aarch64_fpbase_384_montgomery_reduce s₂ f₂).mem pr₂.toNat 6) := by
  obtain ⟨-, l1, m1, -⟩ := armv6m_fpbase_384_montgomery_reduce s₁ pr₁ pt₁ pp₁ inv₁ f₁ hf₁ hst₁ hpc₁ h0₁ h1₁ h2₁ h3₁ hlr₁ hr₁ ht₁ hp₁ hstk₁ hrs₁ hts₁ hps₁ hinv₁ hT₁ h2P₁
  obtain ⟨-, l2, m2, -⟩ := aarch64_fpbase_384_montgomery_reduce s₂ pr₂ pt₂ pp₂ inv₂ f₂ hf₂ hst₂ hpc₂ h0₂ h1₂ h2₂ h3₂ hr₂ ht₂ hp₂ hstk₂ hrs₂ hts₂ hps₂ hinv₂
    (by rw [← hTe, ← hPe]; exact hT₁) (by rw [← hPe]; exact h2P₁)
  rw [← hPe] at l2 m2; rw [← hTe] at m2
  exact mont_unique hinv₁ l1 l2 m1 m2

/-! ## the fused FpBase<384>::multiply / square -/

/-- ARMv6-M `fpbase_384_multiply` (`inv` is the fifth argument, the word at the entry SP): `res < P` and `res · 2^384 ≡ a · b (mod P)`;
`res` may overlap `a`, `b` in any way. -/
theorem armv6m_fpbase_384_multiply (s : Thumb1.State) (pr pa pb pp inv : Thumb1.Word) (fuel : Nat) (hfuel : 7123 ≤ fuel)
    (hst : s.status = .running) (hpc : s.pc = 0) (h0 : s.r0 = pr) (h1 : s.r1 = pa) (h2 : s.r2 = pb) (h3 : s.r3 = pp) (hlr : s.lr.toNat % 2 = 1) (h4 : s.mem s.sp.toNat = inv)
    (hcw : s.readable s.sp.toNat = true) (hr : Thumb1.Buf s pr 12 true) (ha : Thumb1.Buf s pa 12 false) (hb : Thumb1.Buf s pb 12 false) (hp : Thumb1.Buf s pp 12 false)
    (hstk : Thumb1.Stack s 33) (hrs : Thumb1.OffStack s 33 pr 12) (has : Thumb1.OffStack s 33 pa 12) (hbs : Thumb1.OffStack s 33 pb 12) (hps : Thumb1.OffStack s 33 pp 12)
    (hinv : (inv.toNat * val (2 ^ 32) (Thumb1.limbs32 s.mem pp.toNat 12) + 1) % 2 ^ 32 = 0) (hAB : val (2 ^ 32) (Thumb1.limbs32 s.mem pa.toNat 12) * val (2 ^ 32) (Thumb1.limbs32 s.mem pb.toNat 12) < val (2 ^ 32) (Thumb1.limbs32 s.mem pp.toNat 12) * 2 ^ 384)
    (h2P : 2 * val (2 ^ 32) (Thumb1.limbs32 s.mem pp.toNat 12) ≤ 2 ^ 384) :
    Thumb1.Returned s (Thumb1.run embedded_pairing_core_arch_armv6_m_fpbase_384_multiply s fuel) ∧
    val (2 ^ 32) (Thumb1.limbs32 (Thumb1.run embedded_pairing_core_arch_armv6_m_fpbase_384_multiply s fuel).mem pr.toNat 12) < val (2 ^ 32) (Thumb1.limbs32 s.mem pp.toNat 12) ∧
    (val (2 ^ 32) (Thumb1.limbs32 (Thumb1.run embedded_pairing_core_arch_armv6_m_fpbase_384_multiply s fuel).mem pr.toNat 12) * 2 ^ 384) % val (2 ^ 32) (Thumb1.limbs32 s.mem pp.toNat 12)
      = (val (2 ^ 32) (Thumb1.limbs32 s.mem pa.toNat 12) * val (2 ^ 32) (Thumb1.limbs32 s.mem pb.toNat 12)) % val (2 ^ 32) (Thumb1.limbs32 s.mem pp.toNat 12) ∧
    (∀ k, ¬(pr.toNat ≤ k ∧ k < pr.toNat + 48) → ¬(s.sp.toNat - 132 ≤ k ∧ k < s.sp.toNat) →
      (Thumb1.run embedded_pairing_core_arch_armv6_m_fpbase_384_multiply s fuel).mem k = s.mem k) ∧
    (Thumb1.run embedded_pairing_core_arch_armv6_m_fpbase_384_multiply s fuel).callSpMisaligned = (s.callSpMisaligned || (s.sp.toNat - 132) % 8 != 0) := by
  obtain ⟨s', h, hret, rest⟩ := Thumb1.fpbase_384_multiply_run s pr pa pb pp inv hst hpc h0 h1 h2 h3 hlr h4 hcw hr ha hb hp hstk hrs has hbs hps hinv hAB h2P
  rw [Thumb1.run_fuel h hret.halted fuel hfuel]
  exact ⟨hret, rest⟩

/-- … hence, for operands `< P`, the limbs of the portable `FpBase::multiply` at base 2^32 (model `fpMul` = `mulLoop` then `montReduce`,
contract `C02.fp_multiply`). -/
theorem armv6m_fpbase_384_multiply_eq_portable (s : Thumb1.State) (pr pa pb pp inv : Thumb1.Word) (fuel : Nat) (hfuel : 7123 ≤ fuel)
    (hst : s.status = .running) (hpc : s.pc = 0) (h0 : s.r0 = pr) (h1 : s.r1 = pa) (h2 : s.r2 = pb) (h3 : s.r3 = pp) (hlr : s.lr.toNat % 2 = 1) (h4 : s.mem s.sp.toNat = inv)
    (hcw : s.readable s.sp.toNat = true) (hr : Thumb1.Buf s pr 12 true) (ha : Thumb1.Buf s pa 12 false) (hb : Thumb1.Buf s pb 12 false) (hp : Thumb1.Buf s pp 12 false)
    (hstk : Thumb1.Stack s 33) (hrs : Thumb1.OffStack s 33 pr 12) (has : Thumb1.OffStack s 33 pa 12) (hbs : Thumb1.OffStack s 33 pb 12) (hps : Thumb1.OffStack s 33 pp 12)
    (hinv : (inv.toNat * val (2 ^ 32) (Thumb1.limbs32 s.mem pp.toNat 12) + 1) % 2 ^ 32 = 0) (hA : val (2 ^ 32) (Thumb1.limbs32 s.mem pa.toNat 12) < val (2 ^ 32) (Thumb1.limbs32 s.mem pp.toNat 12))
    (hB : val (2 ^ 32) (Thumb1.limbs32 s.mem pb.toNat 12) < val (2 ^ 32) (Thumb1.limbs32 s.mem pp.toNat 12)) (h2P : 2 * val (2 ^ 32) (Thumb1.limbs32 s.mem pp.toNat 12) ≤ 2 ^ 384) :
    Thumb1.limbs32 (Thumb1.run embedded_pairing_core_arch_armv6_m_fpbase_384_multiply s fuel).mem pr.toNat 12
      = fpMul (2 ^ 32) 12 (Thumb1.limbs32 s.mem pa.toNat 12) (Thumb1.limbs32 s.mem pb.toNat 12) (Thumb1.limbs32 s.mem pp.toNat 12) inv.toNat := by
  have hAB : val (2 ^ 32) (Thumb1.limbs32 s.mem pa.toNat 12) * val (2 ^ 32) (Thumb1.limbs32 s.mem pb.toNat 12) < val (2 ^ 32) (Thumb1.limbs32 s.mem pp.toNat 12) * 2 ^ 384 :=
    Nat.mul_lt_mul'' hA (limbs32_lt' s.mem pb.toNat)
  obtain ⟨-, hlt, hmod, -⟩ := armv6m_fpbase_384_multiply s pr pa pb pp inv fuel hfuel hst hpc h0 h1 h2 h3 hlr h4 hcw hr ha hb hp hstk hrs has hbs hps hinv hAB h2P
  obtain ⟨w, l, plt, pmod⟩ := C02.fp_multiply (B := 2 ^ 32) (n := 12) (inv := inv.toNat) (Thumb1.limbs32_WF s.mem pa.toNat 12)
    (Thumb1.limbs32_WF s.mem pb.toNat 12) (Thumb1.limbs32_WF s.mem pp.toNat 12) (Thumb1.limbs32_length _ _ _) (by omega) (Thumb1.limbs32_length _ _ _)
    (Thumb1.limbs32_length _ _ _) hinv hA hB (by rw [pow32_12']; exact h2P)
  rw [pow32_12'] at pmod
  exact val_inj (Thumb1.limbs32_WF _ _ _) w (by rw [l, Thumb1.limbs32_length]) (mont_unique hinv hlt plt hmod pmod)

/-- … and the number the AArch64 routine (`C03.aarch64_fpbase_384_multiply`) leaves, on states with the same `a`, `b`, `P`. -/
theorem armv6m_fpbase_384_multiply_agrees_aarch64 (s₁ : Thumb1.State) (s₂ : A64.State) (pr₁ pa₁ pb₁ pp₁ inv₁ : Thumb1.Word) (pr₂ pa₂ pb₂ pp₂ inv₂ : A64.Word)
    (f₁ f₂ : Nat) (hf₁ : 7123 ≤ f₁) (hf₂ : 407 ≤ f₂)
    (hst₁ : s₁.status = .running) (hpc₁ : s₁.pc = 0) (h0₁ : s₁.r0 = pr₁) (h1₁ : s₁.r1 = pa₁) (h2₁ : s₁.r2 = pb₁) (h3₁ : s₁.r3 = pp₁) (hlr₁ : s₁.lr.toNat % 2 = 1)
    (h4₁ : s₁.mem s₁.sp.toNat = inv₁) (hcw₁ : s₁.readable s₁.sp.toNat = true) (hr₁ : Thumb1.Buf s₁ pr₁ 12 true) (ha₁ : Thumb1.Buf s₁ pa₁ 12 false) (hb₁ : Thumb1.Buf s₁ pb₁ 12 false)
    (hp₁ : Thumb1.Buf s₁ pp₁ 12 false) (hstk₁ : Thumb1.Stack s₁ 33) (hrs₁ : Thumb1.OffStack s₁ 33 pr₁ 12) (has₁ : Thumb1.OffStack s₁ 33 pa₁ 12) (hbs₁ : Thumb1.OffStack s₁ 33 pb₁ 12)
    (hps₁ : Thumb1.OffStack s₁ 33 pp₁ 12) (hinv₁ : (inv₁.toNat * val (2 ^ 32) (Thumb1.limbs32 s₁.mem pp₁.toNat 12) + 1) % 2 ^ 32 = 0) (hAB₁ : val (2 ^ 32) (Thumb1.limbs32 s₁.mem pa₁.toNat 12) * val (2 ^ 32) (Thumb1.limbs32 s₁.mem pb₁.toNat 12) < val (2 ^ 32) (Thumb1.limbs32 s₁.mem pp₁.toNat 12) * 2 ^ 384)
    (h2P₁ : 2 * val (2 ^ 32) (Thumb1.limbs32 s₁.mem pp₁.toNat 12) ≤ 2 ^ 384)
    (hst₂ : s₂.status = .running) (hpc₂ : s₂.pc = 0) (h0₂ : s₂.x0 = pr₂) (h1₂ : s₂.x1 = pa₂) (h2₂ : s₂.x2 = pb₂) (h3₂ : s₂.x3 = pp₂) (h4₂ : s₂.x4 = inv₂)
    (hr₂ : A64.Buf s₂ pr₂ 6 true) (ha₂ : A64.Buf s₂ pa₂ 6 false) (hb₂ : A64.Buf s₂ pb₂ 6 false) (hp₂ : A64.Buf s₂ pp₂ 6 false)
    (hstk₂ : A64.Stack s₂ 6) (hrs₂ : A64.OffStack s₂ 6 pr₂ 6) (has₂ : A64.OffStack s₂ 6 pa₂ 6) (hbs₂ : A64.OffStack s₂ 6 pb₂ 6) (hps₂ : A64.OffStack s₂ 6 pp₂ 6)
    (hinv₂ : (inv₂.toNat * val (2 ^ 64) (limbs s₂.mem pp₂.toNat 6) + 1) % 2 ^ 64 = 0)
    (hAe : val (2 ^ 32) (Thumb1.limbs32 s₁.mem pa₁.toNat 12) = val (2 ^ 64) (limbs s₂.mem pa₂.toNat 6))
    (hBe : val (2 ^ 32) (Thumb1.limbs32 s₁.mem pb₁.toNat 12) = val (2 ^ 64) (limbs s₂.mem pb₂.toNat 6))
    (hPe : val (2 ^ 32) (Thumb1.limbs32 s₁.mem pp₁.toNat 12) = val (2 ^ 64) (limbs s₂.mem pp₂.toNat 6)) :
    val (2 ^ 32) (Thumb1.limbs32 (Thumb1.run embedded_pairing_core_arch_armv6_m_fpbase_384_multiply s₁ f₁).mem pr₁.toNat 12)
      = val (2 ^ 64) (limbs (A64.run Gen.AsmA64.embedded_pairing_core_arch_aarch64_fpbase_384_multiply s₂ f₂).mem pr₂.toNat 6) := by
  obtain ⟨-, l1, m1, -⟩ := armv6m_fpbase_384_multiply s₁ pr₁ pa₁ pb₁ pp₁ inv₁ f₁ hf₁ hst₁ hpc₁ h0₁ h1₁ h2₁ h3₁ hlr₁ h4₁ hcw₁ hr₁ ha₁ hb₁ hp₁ hstk₁ hrs₁ has₁ hbs₁ hps₁ hinv₁ hAB₁ h2P₁
  obtain ⟨-, l2, m2, -⟩ := aarch64_fpbase_384_multiply s₂ pr₂ pa₂ pb₂ pp₂ inv₂ f₂ hf₂ hst₂ hpc₂ h0₂ h1₂ h2₂ h3₂ h4₂ hr₂ ha₂ hb₂ hp₂ hstk₂ hrs₂ has₂ hbs₂ hps₂ hinv₂
    (by rw [← hAe, ← hBe, ← hPe]; exact hAB₁) (by rw [← hPe]; exact h2P₁)
  rw [← hPe] at l2 m2; rw [← hAe, ← hBe] at m2
  exact mont_unique hinv₁ l1 l2 m1 m2

/-- ARMv6-M `fpbase_384_square`: `res < P` and `res · 2^384 ≡ a² (mod P)`; `res` may overlap `a` in any way. -/
theorem armv6m_fpbase_384_square (s : Thumb1.State) (pr pa pp inv : Thumb1.Word) (fuel : Nat) (hfuel : 5457 ≤ fuel)
    (hst : s.status = .running) (hpc : s.pc = 0) (h0 : s.r0 = pr) (h1 : s.r1 = pa) (h2 : s.r2 = pp) (h3 : s.r3 = inv) (hlr : s.lr.toNat % 2 = 1) (hr : Thumb1.Buf s pr 12 true)
    (ha : Thumb1.Buf s pa 12 false) (hp : Thumb1.Buf s pp 12 false) (hstk : Thumb1.Stack s 33) (hrs : Thumb1.OffStack s 33 pr 12) (has : Thumb1.OffStack s 33 pa 12)
    (hps : Thumb1.OffStack s 33 pp 12) (hinv : (inv.toNat * val (2 ^ 32) (Thumb1.limbs32 s.mem pp.toNat 12) + 1) % 2 ^ 32 = 0) (hAB : val (2 ^ 32) (Thumb1.limbs32 s.mem pa.toNat 12) * val (2 ^ 32) (Thumb1.limbs32 s.mem pa.toNat 12) < val (2 ^ 32) (Thumb1.limbs32 s.mem pp.toNat 12) * 2 ^ 384)
    (h2P : 2 * val (2 ^ 32) (Thumb1.limbs32 s.mem pp.toNat 12) ≤ 2 ^ 384) :
    Thumb1.Returned s (Thumb1.run embedded_pairing_core_arch_armv6_m_fpbase_384_square s fuel) ∧
    val (2 ^ 32) (Thumb1.limbs32 (Thumb1.run embedded_pairing_core_arch_armv6_m_fpbase_384_square s fuel).mem pr.toNat 12) < val (2 ^ 32) (Thumb1.limbs32 s.mem pp.toNat 12) ∧
    (val (2 ^ 32) (Thumb1.limbs32 (Thumb1.run embedded_pairing_core_arch_armv6_m_fpbase_384_square s fuel).mem pr.toNat 12) * 2 ^ 384) % val (2 ^ 32) (Thumb1.limbs32 s.mem pp.toNat 12)
      = (val (2 ^ 32) (Thumb1.limbs32 s.mem pa.toNat 12) * val (2 ^ 32) (Thumb1.limbs32 s.mem pa.toNat 12)) % val (2 ^ 32) (Thumb1.limbs32 s.mem pp.toNat 12) ∧
    (∀ k, ¬(pr.toNat ≤ k ∧ k < pr.toNat + 48) → ¬(s.sp.toNat - 132 ≤ k ∧ k < s.sp.toNat) →
      (Thumb1.run embedded_pairing_core_arch_armv6_m_fpbase_384_square s fuel).mem k = s.mem k) ∧
    (Thumb1.run embedded_pairing_core_arch_armv6_m_fpbase_384_square s fuel).callSpMisaligned = (s.callSpMisaligned || (s.sp.toNat - 132) % 8 != 0) := by
  obtain ⟨s', h, hret, rest⟩ := Thumb1.fpbase_384_square_run s pr pa pp inv hst hpc h0 h1 h2 h3 hlr hr ha hp hstk hrs has hps hinv hAB h2P
  rw [Thumb1.run_fuel h hret.halted fuel hfuel]
  exact ⟨hret, rest⟩

/-- … hence, for `a < P`, the limbs of the portable `FpBase::square` at base 2^32 (model `fpSqr`, contract `C02.fp_square`) — and of
`multiply(a, a)` (`C02.fp_square_eq_multiply`). -/
theorem armv6m_fpbase_384_square_eq_portable (s : Thumb1.State) (pr pa pp inv : Thumb1.Word) (fuel : Nat) (hfuel : 5457 ≤ fuel)
    (hst : s.status = .running) (hpc : s.pc = 0) (h0 : s.r0 = pr) (h1 : s.r1 = pa) (h2 : s.r2 = pp) (h3 : s.r3 = inv) (hlr : s.lr.toNat % 2 = 1) (hr : Thumb1.Buf s pr 12 true)
    (ha : Thumb1.Buf s pa 12 false) (hp : Thumb1.Buf s pp 12 false) (hstk : Thumb1.Stack s 33) (hrs : Thumb1.OffStack s 33 pr 12) (has : Thumb1.OffStack s 33 pa 12)
    (hps : Thumb1.OffStack s 33 pp 12) (hinv : (inv.toNat * val (2 ^ 32) (Thumb1.limbs32 s.mem pp.toNat 12) + 1) % 2 ^ 32 = 0) (hA : val (2 ^ 32) (Thumb1.limbs32 s.mem pa.toNat 12) < val (2 ^ 32) (Thumb1.limbs32 s.mem pp.toNat 12))
    (h2P : 2 * val (2 ^ 32) (Thumb1.limbs32 s.mem pp.toNat 12) ≤ 2 ^ 384) :
    Thumb1.limbs32 (Thumb1.run embedded_pairing_core_arch_armv6_m_fpbase_384_square s fuel).mem pr.toNat 12
      = fpSqr (2 ^ 32) 12 (Thumb1.limbs32 s.mem pa.toNat 12) (Thumb1.limbs32 s.mem pp.toNat 12) inv.toNat := by
  have hAB : val (2 ^ 32) (Thumb1.limbs32 s.mem pa.toNat 12) * val (2 ^ 32) (Thumb1.limbs32 s.mem pa.toNat 12) < val (2 ^ 32) (Thumb1.limbs32 s.mem pp.toNat 12) * 2 ^ 384 :=
    Nat.mul_lt_mul'' hA (limbs32_lt' s.mem pa.toNat)
  obtain ⟨-, hlt, hmod, -⟩ := armv6m_fpbase_384_square s pr pa pp inv fuel hfuel hst hpc h0 h1 h2 h3 hlr hr ha hp hstk hrs has hps hinv hAB h2P
  obtain ⟨w, l, plt, pmod⟩ := C02.fp_square (B := 2 ^ 32) (n := 12) (inv := inv.toNat) (by norm_num) (Thumb1.limbs32_WF s.mem pa.toNat 12)
    (Thumb1.limbs32_WF s.mem pp.toNat 12) (Thumb1.limbs32_length _ _ _) (by omega) (Thumb1.limbs32_length _ _ _) hinv hA
    (by rw [pow32_12']; exact h2P)
  rw [pow32_12'] at pmod
  exact val_inj (Thumb1.limbs32_WF _ _ _) w (by rw [l, Thumb1.limbs32_length]) (mont_unique hinv hlt plt hmod pmod)

/-- … and the number the AArch64 routine (`C03.aarch64_fpbase_384_square`) leaves, on states with the same `a`, `P`. -/
theorem armv6m_fpbase_384_square_agrees_aarch64 (s₁ : Thumb1.State) (s₂ : A64.State) (pr₁ pa₁ pp₁ inv₁ : Thumb1.Word) (pr₂ pa₂ pp₂ inv₂ : A64.Word)
    (f₁ f₂ : Nat) (hf₁ : 5457 ≤ f₁) (hf₂ : 334 ≤ f₂)
    (hst₁ : s₁.status = .running) (hpc₁ : s₁.pc = 0) (h0₁ : s₁.r0 = pr₁) (h1₁ : s₁.r1 = pa₁) (h2₁ : s₁.r2 = pp₁) (h3₁ : s₁.r3 = inv₁) (hlr₁ : s₁.lr.toNat % 2 = 1)
    (hr₁ : Thumb1.Buf s₁ pr₁ 12 true) (ha₁ : Thumb1.Buf s₁ pa₁ 12 false) (hp₁ : Thumb1.Buf s₁ pp₁ 12 false) (hstk₁ : Thumb1.Stack s₁ 33) (hrs₁ : Thumb1.OffStack s₁ 33 pr₁ 12)
    (has₁ : Thumb1.OffStack s₁ 33 pa₁ 12) (hps₁ : Thumb1.OffStack s₁ 33 pp₁ 12) (hinv₁ : (inv₁.toNat * val (2 ^ 32) (Thumb1.limbs32 s₁.mem pp₁.toNat 12) + 1) % 2 ^ 32 = 0)
    (hAB₁ : val (2 ^ 32) (Thumb1.limbs32 s₁.mem pa₁.toNat 12) * val (2 ^ 32) (Thumb1.limbs32 s₁.mem pa₁.toNat 12) < val (2 ^ 32) (Thumb1.limbs32 s₁.mem pp₁.toNat 12) * 2 ^ 384)
    (h2P₁ : 2 * val (2 ^ 32) (Thumb1.limbs32 s₁.mem pp₁.toNat 12) ≤ 2 ^ 384)
    (hst₂ : s₂.status = .running) (hpc₂ : s₂.pc = 0) (h0₂ : s₂.x0 = pr₂) (h1₂ : s₂.x1 = pa₂) (h2₂ : s₂.x2 = pp₂) (h3₂ : s₂.x3 = inv₂)
    (hr₂ : A64.Buf s₂ pr₂ 6 true) (ha₂ : A64.Buf s₂ pa₂ 6 false) (hp₂ : A64.Buf s₂ pp₂ 6 false)
    (hstk₂ : A64.Stack s₂ 5) (hrs₂ : A64.OffStack s₂ 5 pr₂ 6) (has₂ : A64.OffStack s₂ 5 pa₂ 6) (hps₂ : A64.OffStack s₂ 5 pp₂ 6)
    (hinv₂ : (inv₂.toNat * val (2 ^ 64) (limbs s₂.mem pp₂.toNat 6) + 1) % 2 ^ 64 = 0)
    (hAe : val (2 ^ 32) (Thumb1.limbs32 s₁.mem pa₁.toNat 12) = val (2 ^ 64) (limbs s₂.mem pa₂.toNat 6))
    (hPe : val (2 ^ 32) (Thumb1.limbs32 s₁.mem pp₁.toNat 12) = val (2 ^ 64) (limbs s₂.mem pp₂.toNat 6)) :
    val (2 ^ 32) (Thumb1.limbs32 (Thumb1.run embedded_pairing_core_arch_armv6_m_fpbase_384_square s₁ f₁).mem pr₁.toNat 12)
      = val (2 ^ 64) (limbs (A64.run Gen.AsmA64.embedded_pairing_core_arch_aarch64_fpbase_384_square s₂ f₂).mem pr₂.toNat 6) := by
  obtain ⟨-, l1, m1, -⟩ := armv6m_fpbase_384_square s₁ pr₁ pa₁ pp₁ inv₁ f₁ hf₁ hst₁ hpc₁ h0₁ h1₁ h2₁ h3₁ hlr₁ hr₁ ha₁ hp₁ hstk₁ hrs₁ has₁ hps₁ hinv₁ hAB₁ h2P₁
  obtain ⟨-, l2, m2, -⟩ := aarch64_fpbase_384_square s₂ pr₂ pa₂ pp₂ inv₂ f₂ hf₂ hst₂ hpc₂ h0₂ h1₂ h2₂ h3₂ hr₂ ha₂ hp₂ hstk₂ hrs₂ has₂ hps₂ hinv₂
    (by rw [← hAe, ← hPe]; exact hAB₁) (by rw [← hPe]; exact h2P₁)
  rw [← hPe] at l2 m2; rw [← hAe] at m2
  exact mont_unique hinv₁ l1 l2 m1 m2

/-! ## Non-vacuity: concrete entry states satisfy all hypotheses

The states are the ones the judge builds (`Thumb1.entryState`): arguments in R0–R3 (a fifth one on the stack), the other registers
poisoned, flags unknown, a 64-word stack below SP, one readable word of the caller's frame at SP where the routine reads it.  Every
hypothesis is discharged by evaluation.  Operands `q − 1`, `q − 2` (BLS12-381 base-field modulus `q`), `inv` = the low 32 bits of
the library's constant `fq_inv`; the result object is aliased with an operand. -/

section Examples
private def exA : Nat := Gen.Consts.fq_modulus - 1
private def exB : Nat := Gen.Consts.fq_modulus - 2
private def exInv : Nat := Gen.Consts.fq_inv % 2 ^ 32

private theorem buf_of (s : Thumb1.State) (p n : Nat) (w : Bool) (h1 : p + 4 * n ≤ 2 ^ 32) (h2 : p % 4 = 0) (h3 : p < 2 ^ 32)
    (hr : ∀ i, i < n → s.readable (p + 4 * i) = true)
    (hw : w = true → ∀ i, i < n → s.writable (p + 4 * i) = true) : Thumb1.Buf s (BitVec.ofNat 32 p) n w := by
  have e : (BitVec.ofNat 32 p).toNat = p := by rw [BitVec.toNat_ofNat]; exact Nat.mod_eq_of_lt h3
  exact ⟨by rw [e]; exact h1, by rw [e]; exact h2, by rw [e]; exact hr, by rw [e]; exact hw⟩

private theorem stack_of (s : Thumb1.State) (n : Nat) (h2 : s.sp.toNat % 4 = 0) (h3 : 4 * n ≤ s.sp.toNat)
    (h5 : ∀ i, i < n → s.readable (s.sp.toNat - 4 * (i + 1)) = true ∧ s.writable (s.sp.toNat - 4 * (i + 1)) = true) :
    Thumb1.Stack s n :=
  ⟨h2, h3, fun i hi1 hi2 => by
    have := h5 (i - 1) (by omega)
    rwa [show i - 1 + 1 = i by omega] at this⟩

/-- multiply / square: `res` (24 words) starts where `a` starts -/
private def exMul : Thumb1.State :=
  Thumb1.entryState ([0x20000, 0x20000, 0x21000].map (BitVec.ofNat 32))
    [{ base := 0x20000, words := Thumb1.wordsOfNat 24 exA, writable := true },
     { base := 0x21000, words := Thumb1.wordsOfNat 12 exB, writable := false }] 0x20004000 64 1

example :
    val (2 ^ 32) (Thumb1.limbs32 (Thumb1.run embedded_pairing_core_arch_armv6_m_bigint_768_multiply exMul 4000).mem 0x20000 24) = exA * exB ∧
    val (2 ^ 32) (Thumb1.limbs32 (Thumb1.run embedded_pairing_core_arch_armv6_m_bigint_768_square exMul 2000).mem 0x20000 24) = exA * exA := by
  have hyp1 : Thumb1.Buf exMul (BitVec.ofNat 32 0x20000) 24 true :=
    buf_of _ _ _ _ (by decide) (by decide) (by decide) (by decide) (fun _ => by decide)
  have hyp2 : Thumb1.Buf exMul (BitVec.ofNat 32 0x20000) 12 false :=
    buf_of _ _ _ _ (by decide) (by decide) (by decide) (by decide) (by decide)
  have hyp3 : Thumb1.Buf exMul (BitVec.ofNat 32 0x21000) 12 false :=
    buf_of _ _ _ _ (by decide) (by decide) (by decide) (by decide) (by decide)
  have h1 := (armv6m_bigint_768_multiply exMul (BitVec.ofNat 32 0x20000) (BitVec.ofNat 32 0x20000) (BitVec.ofNat 32 0x21000) 4000
    (by decide) rfl rfl rfl rfl rfl (by decide) hyp1 hyp2 hyp3
    (stack_of _ _ (by decide) (by decide) (by decide)) (by decide)
    (by unfold Thumb1.OffStack; decide) (by unfold Thumb1.OffStack; decide) (by unfold Thumb1.OffStack; decide)).2.1
  have h2 := (armv6m_bigint_768_square exMul (BitVec.ofNat 32 0x20000) (BitVec.ofNat 32 0x20000) 2000
    (by decide) rfl rfl rfl rfl (by decide) hyp1 hyp2
    (stack_of _ _ (by decide) (by decide) (by decide))
    (by unfold Thumb1.OffStack; decide) (by unfold Thumb1.OffStack; decide)).2.1
  rw [show (BitVec.ofNat 32 0x20000).toNat = 0x20000 by decide] at h1 h2
  rw [show (BitVec.ofNat 32 0x21000).toNat = 0x21000 by decide] at h1
  have ea : val (2 ^ 32) (Thumb1.limbs32 exMul.mem 0x20000 12) = exA := by decide
  have eb : val (2 ^ 32) (Thumb1.limbs32 exMul.mem 0x21000 12) = exB := by decide
  rw [ea, eb] at h1
  rw [ea] at h2
  exact ⟨h1, h2⟩

/-- montgomery_reduce: `res` is the low half of the 24-word object holding `T`; `inv` in R3 -/
private def exRed : Thumb1.State :=
  Thumb1.entryState ([0x20000, 0x20000, 0x30000].map (BitVec.ofNat 32) ++ [BitVec.ofNat 32 exInv])
    [{ base := 0x20000, words := Thumb1.wordsOfNat 24 (exA * exB), writable := true },
     { base := 0x30000, words := Thumb1.wordsOfNat 12 Gen.Consts.fq_modulus, writable := false }] 0x20004000 64 0

example :
    val (2 ^ 32) (Thumb1.limbs32 (Thumb1.run embedded_pairing_core_arch_armv6_m_fpbase_384_montgomery_reduce exRed 4000).mem 0x20000 12)
      < Gen.Consts.fq_modulus ∧
    (val (2 ^ 32) (Thumb1.limbs32 (Thumb1.run embedded_pairing_core_arch_armv6_m_fpbase_384_montgomery_reduce exRed 4000).mem 0x20000 12)
      * 2 ^ 384) % Gen.Consts.fq_modulus = (exA * exB) % Gen.Consts.fq_modulus := by
  have hP : val (2 ^ 32) (Thumb1.limbs32 exRed.mem (BitVec.ofNat 32 0x30000).toNat 12) = Gen.Consts.fq_modulus := by decide
  have hTv : val (2 ^ 32) (Thumb1.limbs32 exRed.mem (BitVec.ofNat 32 0x20000).toNat 24) = exA * exB := by decide
  have h1 := armv6m_fpbase_384_montgomery_reduce exRed (BitVec.ofNat 32 0x20000) (BitVec.ofNat 32 0x20000) (BitVec.ofNat 32 0x30000) (BitVec.ofNat 32 exInv) 4000
    (by decide) rfl rfl rfl rfl rfl rfl (by decide)
    (buf_of _ _ _ _ (by decide) (by decide) (by decide) (by decide) (fun _ => by decide)) (buf_of _ _ _ _ (by decide) (by decide) (by decide) (by decide) (by decide))
    (buf_of _ _ _ _ (by decide) (by decide) (by decide) (by decide) (by decide))
    (stack_of _ _ (by decide) (by decide) (by decide))
    (by unfold Thumb1.OffStack; decide) (by unfold Thumb1.OffStack; decide) (by unfold Thumb1.OffStack; decide)
    (by rw [hP]; decide) (by rw [hP, hTv]; decide) (by rw [hP]; decide)
  rw [hP, hTv] at h1
  rw [show (BitVec.ofNat 32 0x20000).toNat = 0x20000 by decide] at h1
  exact ⟨h1.2.1, h1.2.2.1⟩

/-- the fused multiply: `res` is the same object as `a`; `p` a read-only object, `inv` the fifth argument (on the stack) -/
private def exFpMul : Thumb1.State :=
  Thumb1.entryState ([0x20000, 0x20000, 0x21000, 0x30000].map (BitVec.ofNat 32) ++ [BitVec.ofNat 32 exInv])
    [{ base := 0x20000, words := Thumb1.wordsOfNat 12 exA, writable := true },
     { base := 0x21000, words := Thumb1.wordsOfNat 12 exB, writable := false },
     { base := 0x30000, words := Thumb1.wordsOfNat 12 Gen.Consts.fq_modulus, writable := false }] 0x20004000 64 0

/-- the fused square: `res` is the same object as `a`; `inv` in R3 -/
private def exFpSqr : Thumb1.State :=
  Thumb1.entryState ([0x20000, 0x20000, 0x30000].map (BitVec.ofNat 32) ++ [BitVec.ofNat 32 exInv])
    [{ base := 0x20000, words := Thumb1.wordsOfNat 12 exA, writable := true },
     { base := 0x30000, words := Thumb1.wordsOfNat 12 Gen.Consts.fq_modulus, writable := false }] 0x20004000 64 0

example :
    (val (2 ^ 32) (Thumb1.limbs32 (Thumb1.run embedded_pairing_core_arch_armv6_m_fpbase_384_multiply exFpMul 8000).mem 0x20000 12)
      < Gen.Consts.fq_modulus ∧
     (val (2 ^ 32) (Thumb1.limbs32 (Thumb1.run embedded_pairing_core_arch_armv6_m_fpbase_384_multiply exFpMul 8000).mem 0x20000 12)
      * 2 ^ 384) % Gen.Consts.fq_modulus = (exA * exB) % Gen.Consts.fq_modulus) ∧
    (val (2 ^ 32) (Thumb1.limbs32 (Thumb1.run embedded_pairing_core_arch_armv6_m_fpbase_384_square exFpSqr 6000).mem 0x20000 12)
      < Gen.Consts.fq_modulus ∧
     (val (2 ^ 32) (Thumb1.limbs32 (Thumb1.run embedded_pairing_core_arch_armv6_m_fpbase_384_square exFpSqr 6000).mem 0x20000 12)
      * 2 ^ 384) % Gen.Consts.fq_modulus = (exA * exA) % Gen.Consts.fq_modulus) := by
  have hP1 : val (2 ^ 32) (Thumb1.limbs32 exFpMul.mem (BitVec.ofNat 32 0x30000).toNat 12) = Gen.Consts.fq_modulus := by decide
  have hA1 : val (2 ^ 32) (Thumb1.limbs32 exFpMul.mem (BitVec.ofNat 32 0x20000).toNat 12) = exA := by decide
  have hB1 : val (2 ^ 32) (Thumb1.limbs32 exFpMul.mem (BitVec.ofNat 32 0x21000).toNat 12) = exB := by decide
  have hP2 : val (2 ^ 32) (Thumb1.limbs32 exFpSqr.mem (BitVec.ofNat 32 0x30000).toNat 12) = Gen.Consts.fq_modulus := by decide
  have hA2 : val (2 ^ 32) (Thumb1.limbs32 exFpSqr.mem (BitVec.ofNat 32 0x20000).toNat 12) = exA := by decide
  have h1 := armv6m_fpbase_384_multiply exFpMul (BitVec.ofNat 32 0x20000) (BitVec.ofNat 32 0x20000) (BitVec.ofNat 32 0x21000) (BitVec.ofNat 32 0x30000) (BitVec.ofNat 32 exInv) 8000
    (by decide) rfl rfl rfl rfl rfl rfl (by decide) (by decide) (by decide)
    (buf_of _ _ _ _ (by decide) (by decide) (by decide) (by decide) (fun _ => by decide)) (buf_of _ _ _ _ (by decide) (by decide) (by decide) (by decide) (by decide))
    (buf_of _ _ _ _ (by decide) (by decide) (by decide) (by decide) (by decide)) (buf_of _ _ _ _ (by decide) (by decide) (by decide) (by decide) (by decide))
    (stack_of _ _ (by decide) (by decide) (by decide))
    (by unfold Thumb1.OffStack; decide) (by unfold Thumb1.OffStack; decide) (by unfold Thumb1.OffStack; decide) (by unfold Thumb1.OffStack; decide)
    (by rw [hP1]; decide) (by rw [hP1, hA1, hB1]; decide) (by rw [hP1]; decide)
  have h2 := armv6m_fpbase_384_square exFpSqr (BitVec.ofNat 32 0x20000) (BitVec.ofNat 32 0x20000) (BitVec.ofNat 32 0x30000) (BitVec.ofNat 32 exInv) 6000
    (by decide) rfl rfl rfl rfl rfl rfl (by decide)
    (buf_of _ _ _ _ (by decide) (by decide) (by decide) (by decide) (fun _ => by decide)) (buf_of _ _ _ _ (by decide) (by decide) (by decide) (by decide) (by decide))
    (buf_of _ _ _ _ (by decide) (by decide) (by decide) (by decide) (by decide))
    (stack_of _ _ (by decide) (by decide) (by decide))
    (by unfold Thumb1.OffStack; decide) (by unfold Thumb1.OffStack; decide) (by unfold Thumb1.OffStack; decide)
    (by rw [hP2]; decide) (by rw [hP2, hA2]; decide) (by rw [hP2]; decide)
  rw [hP1, hA1, hB1] at h1
  rw [hP2, hA2] at h2
  rw [show (BitVec.ofNat 32 0x20000).toNat = 0x20000 by decide] at h1 h2
  exact ⟨⟨h1.2.1, h1.2.2.1⟩, ⟨h2.2.1, h2.2.2.1⟩⟩
end Examples

end Jedi.C03
