/-
C03 (continued) — the large ARMv6-M (Thumb-1) routines of /repo/src/core/arch/armv6_m/multiply.s.

Instruction-level, for ALL inputs.  The programs are the ones regenerated from the sources on every check
(`JediVerif/Gen/AsmV6M.lean`, produced by translate/arm2lean.py), executed by the machine model of `JediVerif/Impl/Thumb1.lean`.
For every state `s` that satisfies AAPCS at the routine's entry (arguments in R0–R3, any pointer values, any memory contents, any
values in the other registers, the flags unknown; the objects 4-byte aligned, inside the address space, readable / writable as the C
signature says; LR a Thumb address; SP 4-byte aligned with room for the words the routine pushes and for its 96-byte product
buffer; every object disjoint from that frame), running the program with any fuel ≥ its length
  (1) returns properly (`Thumb1.Returned`: halted by a branch to the address in LR, SP as at entry, R4–R11 intact; no fault on
      the way: no unaligned or unpermitted access, no use of an unknown flag — the divided-syntax `mov lo, lo` makes the flags
      unknown in the model —, no switch to ARM state),
  (2) leaves in `res` the Nat-level contract of `Properties/C02.lean` / `C03.lean` / `C03c.lean`,
  (3) hence the same limbs as the portable model at base 2^32 (`…_eq_portable`) and the same number as the AArch64 routine
      (`…_agrees_aarch64`),
  (4) writes nothing but `res` and its own frame below SP.

Aliasing.  All five routines build their result in a buffer on the stack and write `res` at the very end: `res` may overlap the
operands (and the modulus) in ANY way.

`bigint_768_multiply` shares its prologue with `fpbase_384_multiply` and executes `ldr r4, [sp, #36]` (the word at the entry SP, i.e.
a word of the CALLER's frame) although it has no stack argument; the value is not used, but the word must be readable
(hypothesis `hcw`).

Proofs: `JediVerif/Proofs/Thumb1Mul{Infra,Code,Macros,Rows,Mul,…}.lean` — the 32×32→64 macro block is given a contract once
(`Thumb1.macMulAC_spec`, …), rows are compositions proved once for a symbolic row index, routines are compositions of rows.
-/
import JediVerif.Proofs.Thumb1MulMul
import JediVerif.Properties.C03c

set_option exponentiation.threshold 800

namespace Jedi.C03
open Jedi Jedi.Impl
open Jedi.X86 (limbs limbs_WF limbs_length)
open Jedi.Gen.AsmV6M

private theorem pow32_24 : ((2 : ℕ) ^ 32) ^ 24 = 2 ^ 768 := by rw [← Nat.pow_mul]

/-! ## BigInt<768> = BigInt<384> × BigInt<384> -/

/-- ARMv6-M `bigint_768_multiply`: `res = a · b` (twenty-four 32-bit limbs); `res` may overlap `a`, `b` in any way. -/
theorem armv6m_bigint_768_multiply (s : Thumb1.State) (pr pa pb : Thumb1.Word) (fuel : Nat) (hfuel : 3593 ≤ fuel)
    (hst : s.status = .running) (hpc : s.pc = 0) (h0 : s.r0 = pr) (h1 : s.r1 = pa) (h2 : s.r2 = pb) (hlr : s.lr.toNat % 2 = 1)
    (hr : Thumb1.Buf s pr 24 true) (ha : Thumb1.Buf s pa 12 false) (hb : Thumb1.Buf s pb 12 false)
    (hstk : Thumb1.Stack s 33) (hcw : s.readable s.sp.toNat = true)
    (hrs : Thumb1.OffStack s 33 pr 24) (has : Thumb1.OffStack s 33 pa 12) (hbs : Thumb1.OffStack s 33 pb 12) :
    Thumb1.Returned s (Thumb1.run embedded_pairing_core_arch_armv6_m_bigint_768_multiply s fuel) ∧
    val (2 ^ 32) (Thumb1.limbs32 (Thumb1.run embedded_pairing_core_arch_armv6_m_bigint_768_multiply s fuel).mem pr.toNat 24)
      = val (2 ^ 32) (Thumb1.limbs32 s.mem pa.toNat 12) * val (2 ^ 32) (Thumb1.limbs32 s.mem pb.toNat 12) ∧
    (∀ k, ¬(pr.toNat ≤ k ∧ k < pr.toNat + 96) → ¬(s.sp.toNat - 132 ≤ k ∧ k < s.sp.toNat) →
      (Thumb1.run embedded_pairing_core_arch_armv6_m_bigint_768_multiply s fuel).mem k = s.mem k) := by
  obtain ⟨s', h, hret, rest⟩ := Thumb1.bigint_768_multiply_run s pr pa pb hst hpc h0 h1 h2 hlr hr ha hb hstk hcw hrs has hbs
  rw [Thumb1.run_fuel h hret.halted fuel hfuel]
  exact ⟨hret, rest⟩

/-- … hence the limbs of the portable `BigInt::multiply` at base 2^32 (model `mulLoop`, contract `C02.bigint_multiply`). -/
theorem armv6m_bigint_768_multiply_eq_portable (s : Thumb1.State) (pr pa pb : Thumb1.Word) (fuel : Nat) (hfuel : 3593 ≤ fuel)
    (hst : s.status = .running) (hpc : s.pc = 0) (h0 : s.r0 = pr) (h1 : s.r1 = pa) (h2 : s.r2 = pb) (hlr : s.lr.toNat % 2 = 1)
    (hr : Thumb1.Buf s pr 24 true) (ha : Thumb1.Buf s pa 12 false) (hb : Thumb1.Buf s pb 12 false)
    (hstk : Thumb1.Stack s 33) (hcw : s.readable s.sp.toNat = true)
    (hrs : Thumb1.OffStack s 33 pr 24) (has : Thumb1.OffStack s 33 pa 12) (hbs : Thumb1.OffStack s 33 pb 12) :
    Thumb1.limbs32 (Thumb1.run embedded_pairing_core_arch_armv6_m_bigint_768_multiply s fuel).mem pr.toNat 24
      = mulLoop (2 ^ 32) (Thumb1.limbs32 s.mem pa.toNat 12) (Thumb1.limbs32 s.mem pb.toNat 12) := by
  obtain ⟨-, hv, -⟩ := armv6m_bigint_768_multiply s pr pa pb fuel hfuel hst hpc h0 h1 h2 hlr hr ha hb hstk hcw hrs has hbs
  obtain ⟨w, l, v⟩ := C02.bigint_multiply (B := 2 ^ 32) (by norm_num) (Thumb1.limbs32_WF s.mem pa.toNat 12)
    (Thumb1.limbs32_WF s.mem pb.toNat 12)
  exact val_inj (Thumb1.limbs32_WF _ _ _) w (by rw [l, Thumb1.limbs32_length, Thumb1.limbs32_length, Thumb1.limbs32_length]) (by rw [hv, v])

/-- … and the number the AArch64 routine (`C03.aarch64_bigint_768_multiply`) leaves in its twelve 64-bit limbs, on states whose operands
have the same values. -/
theorem armv6m_bigint_768_multiply_agrees_aarch64 (s₁ : Thumb1.State) (s₂ : A64.State) (pr₁ pa₁ pb₁ : Thumb1.Word) (pr₂ pa₂ pb₂ : A64.Word)
    (f₁ f₂ : Nat) (hf₁ : 3593 ≤ f₁) (hf₂ : 187 ≤ f₂)
    (hst₁ : s₁.status = .running) (hpc₁ : s₁.pc = 0) (h0₁ : s₁.r0 = pr₁) (h1₁ : s₁.r1 = pa₁) (h2₁ : s₁.r2 = pb₁) (hlr₁ : s₁.lr.toNat % 2 = 1)
    (hr₁ : Thumb1.Buf s₁ pr₁ 24 true) (ha₁ : Thumb1.Buf s₁ pa₁ 12 false) (hb₁ : Thumb1.Buf s₁ pb₁ 12 false)
    (hstk₁ : Thumb1.Stack s₁ 33) (hcw₁ : s₁.readable s₁.sp.toNat = true)
    (hrs₁ : Thumb1.OffStack s₁ 33 pr₁ 24) (has₁ : Thumb1.OffStack s₁ 33 pa₁ 12) (hbs₁ : Thumb1.OffStack s₁ 33 pb₁ 12)
    (hst₂ : s₂.status = .running) (hpc₂ : s₂.pc = 0) (h0₂ : s₂.x0 = pr₂) (h1₂ : s₂.x1 = pa₂) (h2₂ : s₂.x2 = pb₂)
    (hr₂ : A64.Buf s₂ pr₂ 12 true) (ha₂ : A64.Buf s₂ pa₂ 6 false) (hb₂ : A64.Buf s₂ pb₂ 6 false)
    (hstk₂ : A64.Stack s₂ 5) (hrs₂ : A64.OffStack s₂ 5 pr₂ 12) (has₂ : A64.OffStack s₂ 5 pa₂ 6) (hbs₂ : A64.OffStack s₂ 5 pb₂ 6)
    (hA : val (2 ^ 32) (Thumb1.limbs32 s₁.mem pa₁.toNat 12) = val (2 ^ 64) (limbs s₂.mem pa₂.toNat 6))
    (hB : val (2 ^ 32) (Thumb1.limbs32 s₁.mem pb₁.toNat 12) = val (2 ^ 64) (limbs s₂.mem pb₂.toNat 6)) :
    val (2 ^ 32) (Thumb1.limbs32 (Thumb1.run embedded_pairing_core_arch_armv6_m_bigint_768_multiply s₁ f₁).mem pr₁.toNat 24)
      = val (2 ^ 64) (limbs (A64.run Gen.AsmA64.embedded_pairing_core_arch_aarch64_bigint_768_multiply s₂ f₂).mem pr₂.toNat 12) := by
  obtain ⟨-, v1, -⟩ := armv6m_bigint_768_multiply s₁ pr₁ pa₁ pb₁ f₁ hf₁ hst₁ hpc₁ h0₁ h1₁ h2₁ hlr₁ hr₁ ha₁ hb₁ hstk₁ hcw₁ hrs₁ has₁ hbs₁
  obtain ⟨-, v2, -⟩ := aarch64_bigint_768_multiply s₂ pr₂ pa₂ pb₂ f₂ hf₂ hst₂ hpc₂ h0₂ h1₂ h2₂ hr₂ ha₂ hb₂ hstk₂ hrs₂ has₂ hbs₂
  rw [v1, v2, hA, hB]

end Jedi.C03
