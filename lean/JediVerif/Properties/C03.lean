/-
C03 — the x86-64 assembly routines compute, bit for bit (output limbs AND returned carry/borrow),
what the portable C++ fallback computes.

What is here (instruction-level, for ALL inputs).  The programs are the ones regenerated from
/repo/src/core/arch/x86_64/bigint.s on every check (`JediVerif/Gen/AsmX86.lean`, produced by
translate/asm2lean.py and cross-checked against GNU as), executed by the machine model of
`JediVerif/Impl/X86.lean`.  For each of

    embedded_pairing_core_arch_x86_64_bigint_384_add        (bool  f(res, a, b))
    embedded_pairing_core_arch_x86_64_bigint_384_subtract   (bool  f(res, a, b))
    embedded_pairing_core_arch_x86_64_bigint_384_multiply2  (u64   f(res, a))
    embedded_pairing_core_arch_x86_64_fpbase_384_add        (void  f(res, a, b, p))
    embedded_pairing_core_arch_x86_64_fpbase_384_subtract   (void  f(res, a, b, p))
    embedded_pairing_core_arch_x86_64_fpbase_384_multiply2  (void  f(res, a, p))

and every state `s` that satisfies the System V calling convention at entry (see the hypotheses: any
pointer values, any memory contents, any values in the other registers, flags undefined or not),
running the program with any fuel ≥ its length
  (1) returns properly (`Returned`: `ret` to the caller's address, rsp popped, callee-saved registers
      intact; no fault of any kind on the way),
  (2) leaves in `res` (and rax) the Nat-level contract — the one `Properties/C02.lean` proves for the
      portable models,
  (3) and therefore the SAME limbs (and carry) as the portable model (`addLoop`, `subLoop`, `shl1`,
      `fpAdd`, `fpSub`, `fpDbl` of `Impl/Limbs.lean` at base 2^64) — the `…_eq_portable` theorems,
  (4) writes nothing but `res` and the push slots below rsp.
Aliasing: `res` may be the same object as `a` and/or `b` (or be disjoint from them); `p` and the
stack must be disjoint from `res`.  The fpbase routines are specified for operands `< p`, like the
C++ they replace.

Also here: `cpu_supports_bmi2_adx` (the run-time selection between the two families) returns 1 iff
`cpuid` leaf 7 reports both BMI2 (ebx bit 8) and ADX (ebx bit 19); `cpuid` is an oracle of the state.

Multiplication, squaring and Montgomery reduction (baseline and BMI2/ADX families): the same kind of theorem, for every entry state,
is in `Properties/C03b.lean` (proofs `Proofs/AsmMul*.lean`, `AsmMont*.lean`, `AsmSqr*.lean`).  In addition, for every `asm …` operation
line the judge runs the generated programs on the same operands and must reproduce the real routine's output exactly
(`Driver/Judge1.lean: judgeAsm`).  The AArch64 / ARMv6-M assembly: see the property's `not_modelled` text.
-/
import JediVerif.Proofs.AsmProofs
import JediVerif.Properties.C02

set_option exponentiation.threshold 500

namespace Jedi.C03
open Jedi Jedi.Impl Jedi.X86 Jedi.Gen.AsmX86

/-! ## BigInt<384> -/

/-- `bigint_384_add`: `res + 2^384·rax = a + b`, `rax ≤ 1`. -/
theorem bigint_384_add (s : State) (pr pa pb : Word) (fuel : Nat) (hfuel : 21 ≤ fuel)
    (hst : s.status = .running) (hpc : s.pc = 0) (hdi : s.rdi = pr) (hsi : s.rsi = pa) (hdx : s.rdx = pb)
    (hr : Buf s pr 6 true) (ha : Buf s pa 6 false) (hb : Buf s pb 6 false)
    (hra : SameOrDisjoint pr pa 6) (hrb : SameOrDisjoint pr pb 6)
    (hstk : Stack s 0) (hrs : OffStack s 0 pr 6) :
    Returned s (run embedded_pairing_core_arch_x86_64_bigint_384_add s fuel) ∧
    val (2 ^ 64) (limbs (run embedded_pairing_core_arch_x86_64_bigint_384_add s fuel).mem pr.toNat 6)
        + 2 ^ 384 * (run embedded_pairing_core_arch_x86_64_bigint_384_add s fuel).rax.toNat
      = val (2 ^ 64) (limbs s.mem pa.toNat 6) + val (2 ^ 64) (limbs s.mem pb.toNat 6) ∧
    (run embedded_pairing_core_arch_x86_64_bigint_384_add s fuel).rax.toNat ≤ 1 ∧
    (∀ k, ¬(pr.toNat ≤ k ∧ k < pr.toNat + 48) →
      (run embedded_pairing_core_arch_x86_64_bigint_384_add s fuel).mem k = s.mem k) := by
  obtain ⟨s', h, hret, rest⟩ := bigint_384_add_run s pr pa pb hst hpc hdi hsi hdx hr ha hb hra hrb hstk hrs
  rw [run_fuel h hret.halted fuel hfuel]
  exact ⟨hret, rest⟩

/-- … hence the limbs and the carry of the portable `BigInt::add` (model `addLoop`, contract `C02.bigint_add`). -/
theorem bigint_384_add_eq_portable (s : State) (pr pa pb : Word) (fuel : Nat) (hfuel : 21 ≤ fuel)
    (hst : s.status = .running) (hpc : s.pc = 0) (hdi : s.rdi = pr) (hsi : s.rsi = pa) (hdx : s.rdx = pb)
    (hr : Buf s pr 6 true) (ha : Buf s pa 6 false) (hb : Buf s pb 6 false)
    (hra : SameOrDisjoint pr pa 6) (hrb : SameOrDisjoint pr pb 6)
    (hstk : Stack s 0) (hrs : OffStack s 0 pr 6) :
    limbs (run embedded_pairing_core_arch_x86_64_bigint_384_add s fuel).mem pr.toNat 6
      = (addLoop (2 ^ 64) (limbs s.mem pa.toNat 6) (limbs s.mem pb.toNat 6) 0).1 ∧
    (run embedded_pairing_core_arch_x86_64_bigint_384_add s fuel).rax.toNat
      = (addLoop (2 ^ 64) (limbs s.mem pa.toNat 6) (limbs s.mem pb.toNat 6) 0).2 := by
  obtain ⟨-, hv, hc, -⟩ := bigint_384_add s pr pa pb fuel hfuel hst hpc hdi hsi hdx hr ha hb hra hrb hstk hrs
  obtain ⟨w, l, c, v⟩ := C02.bigint_add (c := 0) (limbs_WF s.mem pa.toNat 6) (limbs_WF s.mem pb.toNat 6)
    (by simp [limbs_length]) (by omega)
  rw [limbs_length] at l v
  have e : ((2 : ℕ) ^ 64) ^ 6 = 2 ^ 384 := by rw [← Nat.pow_mul]
  rw [e] at v
  exact limbs_carry_unique (n := 6) (limbs_WF _ _ _) w (limbs_length _ _ _) l hc c (by rw [e]; omega)

/-- `bigint_384_subtract`: `res + b = a + 2^384·rax`, `rax ≤ 1`. -/
theorem bigint_384_subtract (s : State) (pr pa pb : Word) (fuel : Nat) (hfuel : 21 ≤ fuel)
    (hst : s.status = .running) (hpc : s.pc = 0) (hdi : s.rdi = pr) (hsi : s.rsi = pa) (hdx : s.rdx = pb)
    (hr : Buf s pr 6 true) (ha : Buf s pa 6 false) (hb : Buf s pb 6 false)
    (hra : SameOrDisjoint pr pa 6) (hrb : SameOrDisjoint pr pb 6)
    (hstk : Stack s 0) (hrs : OffStack s 0 pr 6) :
    Returned s (run embedded_pairing_core_arch_x86_64_bigint_384_subtract s fuel) ∧
    val (2 ^ 64) (limbs (run embedded_pairing_core_arch_x86_64_bigint_384_subtract s fuel).mem pr.toNat 6)
        + val (2 ^ 64) (limbs s.mem pb.toNat 6)
      = val (2 ^ 64) (limbs s.mem pa.toNat 6)
        + 2 ^ 384 * (run embedded_pairing_core_arch_x86_64_bigint_384_subtract s fuel).rax.toNat ∧
    (run embedded_pairing_core_arch_x86_64_bigint_384_subtract s fuel).rax.toNat ≤ 1 ∧
    (∀ k, ¬(pr.toNat ≤ k ∧ k < pr.toNat + 48) →
      (run embedded_pairing_core_arch_x86_64_bigint_384_subtract s fuel).mem k = s.mem k) := by
  obtain ⟨s', h, hret, rest⟩ := bigint_384_subtract_run s pr pa pb hst hpc hdi hsi hdx hr ha hb hra hrb hstk hrs
  rw [run_fuel h hret.halted fuel hfuel]
  exact ⟨hret, rest⟩

/-- … hence the limbs and the borrow of the portable `BigInt::subtract` (`subLoop`, `C02.bigint_subtract`). -/
theorem bigint_384_subtract_eq_portable (s : State) (pr pa pb : Word) (fuel : Nat) (hfuel : 21 ≤ fuel)
    (hst : s.status = .running) (hpc : s.pc = 0) (hdi : s.rdi = pr) (hsi : s.rsi = pa) (hdx : s.rdx = pb)
    (hr : Buf s pr 6 true) (ha : Buf s pa 6 false) (hb : Buf s pb 6 false)
    (hra : SameOrDisjoint pr pa 6) (hrb : SameOrDisjoint pr pb 6)
    (hstk : Stack s 0) (hrs : OffStack s 0 pr 6) :
    limbs (run embedded_pairing_core_arch_x86_64_bigint_384_subtract s fuel).mem pr.toNat 6
      = (subLoop (2 ^ 64) (limbs s.mem pa.toNat 6) (limbs s.mem pb.toNat 6) 0).1 ∧
    (run embedded_pairing_core_arch_x86_64_bigint_384_subtract s fuel).rax.toNat
      = (subLoop (2 ^ 64) (limbs s.mem pa.toNat 6) (limbs s.mem pb.toNat 6) 0).2 := by
  obtain ⟨-, hv, hc, -⟩ := bigint_384_subtract s pr pa pb fuel hfuel hst hpc hdi hsi hdx hr ha hb hra hrb hstk hrs
  obtain ⟨w, l, c, v⟩ := C02.bigint_subtract (c := 0) (limbs_WF s.mem pa.toNat 6) (limbs_WF s.mem pb.toNat 6)
    (by simp [limbs_length]) (by omega)
  rw [limbs_length] at l v
  have e : ((2 : ℕ) ^ 64) ^ 6 = 2 ^ 384 := by rw [← Nat.pow_mul]
  rw [e] at v
  have key := limbs_carry_unique (n := 6) (limbs_WF (run embedded_pairing_core_arch_x86_64_bigint_384_subtract s fuel).mem
    pr.toNat 6) w (limbs_length _ _ _) l c hc (by rw [e]; omega)
  exact ⟨key.1, key.2.symm⟩

/-- `bigint_384_multiply2` (= `shift_left_in_word<1>`): `res + 2^384·rax = 2·a`, `rax ≤ 1`. -/
theorem bigint_384_multiply2 (s : State) (pr pa : Word) (fuel : Nat) (hfuel : 21 ≤ fuel)
    (hst : s.status = .running) (hpc : s.pc = 0) (hdi : s.rdi = pr) (hsi : s.rsi = pa)
    (hr : Buf s pr 6 true) (ha : Buf s pa 6 false) (hra : SameOrDisjoint pr pa 6)
    (hstk : Stack s 0) (hrs : OffStack s 0 pr 6) :
    Returned s (run embedded_pairing_core_arch_x86_64_bigint_384_multiply2 s fuel) ∧
    val (2 ^ 64) (limbs (run embedded_pairing_core_arch_x86_64_bigint_384_multiply2 s fuel).mem pr.toNat 6)
        + 2 ^ 384 * (run embedded_pairing_core_arch_x86_64_bigint_384_multiply2 s fuel).rax.toNat
      = 2 * val (2 ^ 64) (limbs s.mem pa.toNat 6) ∧
    (run embedded_pairing_core_arch_x86_64_bigint_384_multiply2 s fuel).rax.toNat ≤ 1 ∧
    (∀ k, ¬(pr.toNat ≤ k ∧ k < pr.toNat + 48) →
      (run embedded_pairing_core_arch_x86_64_bigint_384_multiply2 s fuel).mem k = s.mem k) := by
  obtain ⟨s', h, hret, rest⟩ := bigint_384_multiply2_run s pr pa hst hpc hdi hsi hr ha hra hstk hrs
  rw [run_fuel h hret.halted fuel hfuel]
  exact ⟨hret, rest⟩

/-- … hence the limbs and the shifted-out word of the portable `shift_left_in_word<1>` (`shl1`, `C02.bigint_shl1`). -/
theorem bigint_384_multiply2_eq_portable (s : State) (pr pa : Word) (fuel : Nat) (hfuel : 21 ≤ fuel)
    (hst : s.status = .running) (hpc : s.pc = 0) (hdi : s.rdi = pr) (hsi : s.rsi = pa)
    (hr : Buf s pr 6 true) (ha : Buf s pa 6 false) (hra : SameOrDisjoint pr pa 6)
    (hstk : Stack s 0) (hrs : OffStack s 0 pr 6) :
    limbs (run embedded_pairing_core_arch_x86_64_bigint_384_multiply2 s fuel).mem pr.toNat 6
      = (shl1 (2 ^ 64) (limbs s.mem pa.toNat 6)).1 ∧
    (run embedded_pairing_core_arch_x86_64_bigint_384_multiply2 s fuel).rax.toNat
      = (shl1 (2 ^ 64) (limbs s.mem pa.toNat 6)).2 := by
  obtain ⟨-, hv, hc, -⟩ := bigint_384_multiply2 s pr pa fuel hfuel hst hpc hdi hsi hr ha hra hstk hrs
  obtain ⟨w, l, c, v⟩ := C02.bigint_shl1 (B := 2 ^ 64) (by norm_num) (limbs_WF s.mem pa.toNat 6)
  rw [limbs_length] at l v
  have e : ((2 : ℕ) ^ 64) ^ 6 = 2 ^ 384 := by rw [← Nat.pow_mul]
  rw [e] at v
  exact limbs_carry_unique (n := 6) (limbs_WF _ _ _) w (limbs_length _ _ _) l hc c (by rw [e]; omega)

/-! ## FpBase<384> -/

/-- `fpbase_384_add`: `res = (a + b) mod p` for `a, b < p` — through the carry-out, top-word-below,
top-word-above and tie paths. -/
theorem fpbase_384_add (s : State) (pr pa pb pp : Word) (fuel : Nat) (hfuel : 56 ≤ fuel)
    (hst : s.status = .running) (hpc : s.pc = 0)
    (hdi : s.rdi = pr) (hsi : s.rsi = pa) (hdx : s.rdx = pb) (hcx : s.rcx = pp)
    (hr : Buf s pr 6 true) (ha : Buf s pa 6 false) (hb : Buf s pb 6 false) (hp : Buf s pp 6 false)
    (hra : SameOrDisjoint pr pa 6) (hrb : SameOrDisjoint pr pb 6) (hrp : X86.Disjoint pr 6 pp 6)
    (hstk : Stack s 2) (hrs : OffStack s 2 pr 6) (has : OffStack s 2 pa 6) (hbs : OffStack s 2 pb 6)
    (hps : OffStack s 2 pp 6)
    (hA : val (2 ^ 64) (limbs s.mem pa.toNat 6) < val (2 ^ 64) (limbs s.mem pp.toNat 6))
    (hB : val (2 ^ 64) (limbs s.mem pb.toNat 6) < val (2 ^ 64) (limbs s.mem pp.toNat 6)) :
    Returned s (run embedded_pairing_core_arch_x86_64_fpbase_384_add s fuel) ∧
    val (2 ^ 64) (limbs (run embedded_pairing_core_arch_x86_64_fpbase_384_add s fuel).mem pr.toNat 6)
      = (val (2 ^ 64) (limbs s.mem pa.toNat 6) + val (2 ^ 64) (limbs s.mem pb.toNat 6))
          % val (2 ^ 64) (limbs s.mem pp.toNat 6) ∧
    (∀ k, ¬(pr.toNat ≤ k ∧ k < pr.toNat + 48) → ¬(s.rsp.toNat - 16 ≤ k ∧ k < s.rsp.toNat) →
      (run embedded_pairing_core_arch_x86_64_fpbase_384_add s fuel).mem k = s.mem k) := by
  obtain ⟨s', h, hret, rest⟩ := fpbase_384_add_run s pr pa pb pp hst hpc hdi hsi hdx hcx hr ha hb hp hra hrb hrp
    hstk hrs has hbs hps hA hB
  rw [run_fuel h hret.halted fuel hfuel]
  exact ⟨hret, rest⟩

/-- … hence the limbs of the portable `FpBase::add` (`fpAdd`, `C02.fp_add`). -/
theorem fpbase_384_add_eq_portable (s : State) (pr pa pb pp : Word) (fuel : Nat) (hfuel : 56 ≤ fuel)
    (hst : s.status = .running) (hpc : s.pc = 0)
    (hdi : s.rdi = pr) (hsi : s.rsi = pa) (hdx : s.rdx = pb) (hcx : s.rcx = pp)
    (hr : Buf s pr 6 true) (ha : Buf s pa 6 false) (hb : Buf s pb 6 false) (hp : Buf s pp 6 false)
    (hra : SameOrDisjoint pr pa 6) (hrb : SameOrDisjoint pr pb 6) (hrp : X86.Disjoint pr 6 pp 6)
    (hstk : Stack s 2) (hrs : OffStack s 2 pr 6) (has : OffStack s 2 pa 6) (hbs : OffStack s 2 pb 6)
    (hps : OffStack s 2 pp 6)
    (hA : val (2 ^ 64) (limbs s.mem pa.toNat 6) < val (2 ^ 64) (limbs s.mem pp.toNat 6))
    (hB : val (2 ^ 64) (limbs s.mem pb.toNat 6) < val (2 ^ 64) (limbs s.mem pp.toNat 6)) :
    limbs (run embedded_pairing_core_arch_x86_64_fpbase_384_add s fuel).mem pr.toNat 6
      = fpAdd (2 ^ 64) (limbs s.mem pa.toNat 6) (limbs s.mem pb.toNat 6) (limbs s.mem pp.toNat 6) := by
  obtain ⟨-, hv, -⟩ := fpbase_384_add s pr pa pb pp fuel hfuel hst hpc hdi hsi hdx hcx hr ha hb hp hra hrb hrp
    hstk hrs has hbs hps hA hB
  obtain ⟨w, l, v⟩ := C02.fp_add (limbs_WF s.mem pa.toNat 6) (limbs_WF s.mem pb.toNat 6) (limbs_WF s.mem pp.toNat 6)
    (by simp [limbs_length]) (by simp [limbs_length]) hA hB
  exact val_inj (limbs_WF _ _ _) w (by rw [l, limbs_length, limbs_length]) (by rw [hv, v])

/-- `fpbase_384_subtract`: `res = (a − b) mod p`, written `(a + p − b) mod p`, for `a, b < p`. -/
theorem fpbase_384_subtract (s : State) (pr pa pb pp : Word) (fuel : Nat) (hfuel : 39 ≤ fuel)
    (hst : s.status = .running) (hpc : s.pc = 0)
    (hdi : s.rdi = pr) (hsi : s.rsi = pa) (hdx : s.rdx = pb) (hcx : s.rcx = pp)
    (hr : Buf s pr 6 true) (ha : Buf s pa 6 false) (hb : Buf s pb 6 false) (hp : Buf s pp 6 false)
    (hra : SameOrDisjoint pr pa 6) (hrb : SameOrDisjoint pr pb 6) (hrp : X86.Disjoint pr 6 pp 6)
    (hstk : Stack s 2) (hrs : OffStack s 2 pr 6) (has : OffStack s 2 pa 6) (hbs : OffStack s 2 pb 6)
    (hps : OffStack s 2 pp 6)
    (hA : val (2 ^ 64) (limbs s.mem pa.toNat 6) < val (2 ^ 64) (limbs s.mem pp.toNat 6))
    (hB : val (2 ^ 64) (limbs s.mem pb.toNat 6) < val (2 ^ 64) (limbs s.mem pp.toNat 6)) :
    Returned s (run embedded_pairing_core_arch_x86_64_fpbase_384_subtract s fuel) ∧
    val (2 ^ 64) (limbs (run embedded_pairing_core_arch_x86_64_fpbase_384_subtract s fuel).mem pr.toNat 6)
      = (val (2 ^ 64) (limbs s.mem pa.toNat 6) + val (2 ^ 64) (limbs s.mem pp.toNat 6)
          - val (2 ^ 64) (limbs s.mem pb.toNat 6)) % val (2 ^ 64) (limbs s.mem pp.toNat 6) ∧
    (∀ k, ¬(pr.toNat ≤ k ∧ k < pr.toNat + 48) → ¬(s.rsp.toNat - 16 ≤ k ∧ k < s.rsp.toNat) →
      (run embedded_pairing_core_arch_x86_64_fpbase_384_subtract s fuel).mem k = s.mem k) := by
  obtain ⟨s', h, hret, rest⟩ := fpbase_384_subtract_run s pr pa pb pp hst hpc hdi hsi hdx hcx hr ha hb hp hra hrb
    hrp hstk hrs has hbs hps hA hB
  rw [run_fuel h hret.halted fuel hfuel]
  exact ⟨hret, rest⟩

/-- … hence the limbs of the portable `FpBase::subtract` (`fpSub`, `C02.fp_subtract`). -/
theorem fpbase_384_subtract_eq_portable (s : State) (pr pa pb pp : Word) (fuel : Nat) (hfuel : 39 ≤ fuel)
    (hst : s.status = .running) (hpc : s.pc = 0)
    (hdi : s.rdi = pr) (hsi : s.rsi = pa) (hdx : s.rdx = pb) (hcx : s.rcx = pp)
    (hr : Buf s pr 6 true) (ha : Buf s pa 6 false) (hb : Buf s pb 6 false) (hp : Buf s pp 6 false)
    (hra : SameOrDisjoint pr pa 6) (hrb : SameOrDisjoint pr pb 6) (hrp : X86.Disjoint pr 6 pp 6)
    (hstk : Stack s 2) (hrs : OffStack s 2 pr 6) (has : OffStack s 2 pa 6) (hbs : OffStack s 2 pb 6)
    (hps : OffStack s 2 pp 6)
    (hA : val (2 ^ 64) (limbs s.mem pa.toNat 6) < val (2 ^ 64) (limbs s.mem pp.toNat 6))
    (hB : val (2 ^ 64) (limbs s.mem pb.toNat 6) < val (2 ^ 64) (limbs s.mem pp.toNat 6)) :
    limbs (run embedded_pairing_core_arch_x86_64_fpbase_384_subtract s fuel).mem pr.toNat 6
      = fpSub (2 ^ 64) (limbs s.mem pa.toNat 6) (limbs s.mem pb.toNat 6) (limbs s.mem pp.toNat 6) := by
  obtain ⟨-, hv, -⟩ := fpbase_384_subtract s pr pa pb pp fuel hfuel hst hpc hdi hsi hdx hcx hr ha hb hp hra hrb hrp
    hstk hrs has hbs hps hA hB
  obtain ⟨w, l, v⟩ := C02.fp_subtract (limbs_WF s.mem pa.toNat 6) (limbs_WF s.mem pb.toNat 6)
    (limbs_WF s.mem pp.toNat 6) (by simp [limbs_length]) (by simp [limbs_length]) hA hB
  exact val_inj (limbs_WF _ _ _) w (by rw [l, limbs_length, limbs_length]) (by rw [hv, v])

/-- `fpbase_384_multiply2`: `res = 2a mod p` for `a < p`. -/
theorem fpbase_384_multiply2 (s : State) (pr pa pp : Word) (fuel : Nat) (hfuel : 52 ≤ fuel)
    (hst : s.status = .running) (hpc : s.pc = 0) (hdi : s.rdi = pr) (hsi : s.rsi = pa) (hdx : s.rdx = pp)
    (hr : Buf s pr 6 true) (ha : Buf s pa 6 false) (hp : Buf s pp 6 false)
    (hra : SameOrDisjoint pr pa 6) (hrp : X86.Disjoint pr 6 pp 6)
    (hstk : Stack s 1) (hrs : OffStack s 1 pr 6) (has : OffStack s 1 pa 6) (hps : OffStack s 1 pp 6)
    (hA : val (2 ^ 64) (limbs s.mem pa.toNat 6) < val (2 ^ 64) (limbs s.mem pp.toNat 6)) :
    Returned s (run embedded_pairing_core_arch_x86_64_fpbase_384_multiply2 s fuel) ∧
    val (2 ^ 64) (limbs (run embedded_pairing_core_arch_x86_64_fpbase_384_multiply2 s fuel).mem pr.toNat 6)
      = (2 * val (2 ^ 64) (limbs s.mem pa.toNat 6)) % val (2 ^ 64) (limbs s.mem pp.toNat 6) ∧
    (∀ k, ¬(pr.toNat ≤ k ∧ k < pr.toNat + 48) → ¬(s.rsp.toNat - 8 ≤ k ∧ k < s.rsp.toNat) →
      (run embedded_pairing_core_arch_x86_64_fpbase_384_multiply2 s fuel).mem k = s.mem k) := by
  obtain ⟨s', h, hret, rest⟩ := fpbase_384_multiply2_run s pr pa pp hst hpc hdi hsi hdx hr ha hp hra hrp
    hstk hrs has hps hA
  rw [run_fuel h hret.halted fuel hfuel]
  exact ⟨hret, rest⟩

/-- … hence the limbs of the portable `FpBase::multiply2` (`fpDbl`, `C02.fp_multiply2`). -/
theorem fpbase_384_multiply2_eq_portable (s : State) (pr pa pp : Word) (fuel : Nat) (hfuel : 52 ≤ fuel)
    (hst : s.status = .running) (hpc : s.pc = 0) (hdi : s.rdi = pr) (hsi : s.rsi = pa) (hdx : s.rdx = pp)
    (hr : Buf s pr 6 true) (ha : Buf s pa 6 false) (hp : Buf s pp 6 false)
    (hra : SameOrDisjoint pr pa 6) (hrp : X86.Disjoint pr 6 pp 6)
    (hstk : Stack s 1) (hrs : OffStack s 1 pr 6) (has : OffStack s 1 pa 6) (hps : OffStack s 1 pp 6)
    (hA : val (2 ^ 64) (limbs s.mem pa.toNat 6) < val (2 ^ 64) (limbs s.mem pp.toNat 6)) :
    limbs (run embedded_pairing_core_arch_x86_64_fpbase_384_multiply2 s fuel).mem pr.toNat 6
      = fpDbl (2 ^ 64) (limbs s.mem pa.toNat 6) (limbs s.mem pp.toNat 6) := by
  obtain ⟨-, hv, -⟩ := fpbase_384_multiply2 s pr pa pp fuel hfuel hst hpc hdi hsi hdx hr ha hp hra hrp
    hstk hrs has hps hA
  obtain ⟨w, l, v⟩ := C02.fp_multiply2 (B := 2 ^ 64) (by norm_num) (limbs_WF s.mem pa.toNat 6)
    (limbs_WF s.mem pp.toNat 6) (by simp [limbs_length]) hA
  exact val_inj (limbs_WF _ _ _) w (by rw [l, limbs_length, limbs_length]) (by rw [hv, v])

/-! ## Run-time selection -/

/-- `cpu_supports_bmi2_adx()` = 1 if cpuid.(eax=7, ecx=0).ebx has bits 8 and 19 set, else 0. -/
theorem cpu_supports_bmi2_adx (s : State) (fuel : Nat) (hfuel : 13 ≤ fuel)
    (hst : s.status = .running) (hpc : s.pc = 0) (hstk : Stack s 1) :
    Returned s (run embedded_pairing_core_arch_x86_64_cpu_supports_bmi2_adx s fuel) ∧
    (run embedded_pairing_core_arch_x86_64_cpu_supports_bmi2_adx s fuel).rax.toNat
      = (if (s.cpuidFn 7 0).2.1.testBit 8 && (s.cpuidFn 7 0).2.1.testBit 19 then 1 else 0) := by
  obtain ⟨s', h, hret, rest⟩ := cpu_supports_bmi2_adx_run s hst hpc hstk
  rw [run_fuel h hret.halted fuel hfuel]
  exact ⟨hret, rest⟩

/-! ## Non-vacuity: a concrete entry state satisfies all hypotheses

`fpbase_384_add(res, a, b, p)` called with `res` being the same object as `a` (the alias pattern the
C++ signature allows), `a = b = q − 1` and `p = q` (BLS12-381): no carry out of 384 bits, the top word
of the sum is above the top word of `q` (the "subtract without comparing the rest" path).  The state
is the one the judge builds (`X86.entryState`); every hypothesis of the theorem is discharged by
evaluation, and the conclusion is evaluated too. -/

section Examples
private def exA : Nat := Gen.Consts.fq_modulus - 1
private def exS : State :=
  entryState ([0x20000, 0x20000, 0x21000, 0x30000].map (BitVec.ofNat 64))
    [{ base := 0x20000, words := wordsOfNat 6 exA, writable := true },
     { base := 0x21000, words := wordsOfNat 6 exA, writable := false },
     { base := 0x30000, words := wordsOfNat 6 Gen.Consts.fq_modulus, writable := false }] 0x7FFF00001000 64

private theorem exS_buf (p : Nat) (w : Bool) (h1 : p + 8 * 6 ≤ 2 ^ 64) (h2 : p % 8 = 0) (h3 : p < 2 ^ 64)
    (hr : ∀ i, i < 6 → exS.readable (p + 8 * i) = true)
    (hw : w = true → ∀ i, i < 6 → exS.writable (p + 8 * i) = true) : Buf exS (BitVec.ofNat 64 p) 6 w := by
  have e : (BitVec.ofNat 64 p).toNat = p := by rw [BitVec.toNat_ofNat]; exact Nat.mod_eq_of_lt h3
  exact ⟨by rw [e]; exact h1, by rw [e]; exact h2, by rw [e]; exact hr, by rw [e]; exact hw⟩

example :
    val (2 ^ 64) (limbs (run embedded_pairing_core_arch_x86_64_fpbase_384_add exS 100).mem 0x20000 6)
      = (exA + exA) % Gen.Consts.fq_modulus := by
  have h := (fpbase_384_add exS (BitVec.ofNat 64 0x20000) (BitVec.ofNat 64 0x20000) (BitVec.ofNat 64 0x21000)
    (BitVec.ofNat 64 0x30000) 100 (by decide) rfl rfl rfl rfl rfl rfl
    (exS_buf _ _ (by decide) (by decide) (by decide) (by decide) (fun _ => by decide))
    (exS_buf _ _ (by decide) (by decide) (by decide) (by decide) (by decide))
    (exS_buf _ _ (by decide) (by decide) (by decide) (by decide) (by decide))
    (exS_buf _ _ (by decide) (by decide) (by decide) (by decide) (by decide))
    (Or.inl rfl) (Or.inr (by unfold X86.Disjoint; decide)) (by unfold X86.Disjoint; decide)
    ⟨by decide, by decide, by decide, by decide, fun i h1 h2 => by
      obtain rfl | rfl : i = 1 ∨ i = 2 := by omega
      all_goals decide⟩
    (by unfold OffStack; decide) (by unfold OffStack; decide) (by unfold OffStack; decide)
    (by unfold OffStack; decide) (by decide) (by decide)).2.1
  rw [show (BitVec.ofNat 64 0x20000).toNat = 0x20000 by decide] at h
  rw [h]
  decide
end Examples

end Jedi.C03
