/-
C09b — square roots, `get_point_from_x`, and the COMPRESSED point encoding: round trip and canonicity.

Continues `Properties/C09.lean` (flags, identity, uncompressed form; the compressed round trip was left there with the
square-root fact as an explicit hypothesis).  Here that hypothesis is discharged.  About the definitions of
`Impl/Encode.lean` (models of `Fq2::square_root`, `Fq::compare`, `get_point_from_x`, `Encoding<Affine, compressed>::
encode/decode` in src/bls12_381/{fq2,curve}.cpp) and `decodeChecked` of `Proofs/MarshalProofs.lean` (`decode … checked =
true` plus the `coordinate_is_canonical` test of the repaired library):

1. `Fq.sqrt` (`a^((q+1)/4)`) and `fq2Sqrt` (`Fq2::square_root`, the "complex method" as coded) return a square root of
   EVERY square; the Legendre symbols `finLegendre`, `Fq2.legendre` (Euler's criterion; for Fq2 via the norm) are −1
   exactly on the non-squares, 0 exactly at 0; what `Fq2::square_root` returns on non-squares is stated exactly.
2. `get_point_from_x` (`fromX`): validating calls return a point of the curve above the given abscissa whose sign bit is
   the requested flag, and refuse exactly the abscissae with `x³+b` a non-square; both roots are reached by the two flag
   values; exactly one of `y`, `−y` is "greater" (library order: `Fq::compare` on MONTGOMERY representatives — kept as
   coded) unless `y = 0`, which does not occur on either curve (`−b` is not a cube).
3. Compressed round trip `decode (encode P) = P` for every point of either curve — non-validating, validating (for
   points in the subgroup), and repaired validating decode; compressed and uncompressed encodings decode to the same
   point.
4. Canonicity: the repaired validating decode accepts ONLY the encoder's output (both forms): `decodeChecked = 
   decodeCanonical`, and `decodeChecked … bs = some P ↔ P on curve ∧ P in subgroup ∧ encode P = bs`.

Property theorems only; proofs in `Proofs/EncodeProofs.lean`.  Nothing of C09 remains open on the models.
-/
import JediVerif.Proofs.EncodeProofs

namespace Jedi.C09
open Jedi Jedi.Impl

/-! ### 1. square roots and Legendre symbols -/

/-- q ≡ 3 (mod 4): the exponent `(q+1)/4` of `Fq.sqrt` is the usual one. -/
theorem q_mod_four : q % 4 = 3 := Jedi.q_mod_four

/-- `Fq.sqrt a = a^((q+1)/4)` squares to `a` for every square `a` of Fq … -/
theorem Fq_sqrt_sq {a : Fq} (h : IsSquare a) : (Fq.sqrt a) ^ 2 = a := Fq.sqrt_sq h
/-- … and (of course) for no non-square. -/
theorem Fq_sqrt_sq_ne {a : Fq} (h : ¬ IsSquare a) : (Fq.sqrt a) ^ 2 ≠ a := Fq.sqrt_sq_ne h
theorem Fq_sqrt_sq_iff (a : Fq) : (Fq.sqrt a) ^ 2 = a ↔ IsSquare a := Fq.sqrt_sq_iff a

/-- Euler's criterion as computed by `Fq::legendre` (`finLegendre a` is `a^((q−1)/2)` mapped to 0, 1, −1). -/
theorem Fq_legendre_eq_zero_iff (a : Fq) : finLegendre a = 0 ↔ a = 0 := Fq.legendre_eq_zero_iff a
theorem Fq_legendre_eq_one_iff (a : Fq) : finLegendre a = 1 ↔ a ≠ 0 ∧ IsSquare a := Fq.legendre_eq_one_iff a
theorem Fq_legendre_eq_neg_one_iff (a : Fq) : finLegendre a = -1 ↔ ¬ IsSquare a := Fq.legendre_eq_neg_one_iff a

/-- `Fq2::square_root` (model `fq2Sqrt`, the algorithm as coded) squares to `a` for every square `a` of Fq2. -/
theorem Fq2_sqrt_sq {a : Fq2} (h : IsSquare a) : (fq2Sqrt a) ^ 2 = a := fq2Sqrt_sq h
theorem Fq2_sqrt_sq_iff (a : Fq2) : (fq2Sqrt a) ^ 2 = a ↔ IsSquare a := fq2Sqrt_sq_iff a

/-- What it returns on a non-square `a`, with `α = a^((q−1)/2)`: `α ≠ −1`, the general branch is taken, the value is
`x = a^((q+1)/4)·(α+1)^((q−1)/2)`, and `x²·(α+1) = a·(α−1)` with `α+1 ≠ 0` — i.e. `x² = a·(α−1)/(α+1) ≠ a`. -/
theorem Fq2_sqrt_nonsquare {a : Fq2} (h : ¬ IsSquare a) :
    fq2Sqrt a = a ^ ((q + 1) / 4) * (a ^ ((q - 1) / 2) + 1) ^ ((q - 1) / 2) ∧
    a ^ ((q - 1) / 2) + 1 ≠ 0 ∧
    fq2Sqrt a * fq2Sqrt a * (a ^ ((q - 1) / 2) + 1) = a * (a ^ ((q - 1) / 2) - 1) ∧
    fq2Sqrt a * fq2Sqrt a ≠ a := fq2Sqrt_nonsquare h

/-- `Fq2::legendre` (the Legendre symbol in Fq of the norm) characterises the squares of Fq2. -/
theorem Fq2_legendre_eq_zero_iff (a : Fq2) : Fq2.legendre a = 0 ↔ a = 0 := Fq2.legendre_eq_zero_iff a
theorem Fq2_legendre_eq_one_iff (a : Fq2) : Fq2.legendre a = 1 ↔ a ≠ 0 ∧ IsSquare a := Fq2.legendre_eq_one_iff a
theorem Fq2_legendre_eq_neg_one_iff (a : Fq2) : Fq2.legendre a = -1 ↔ ¬ IsSquare a := Fq2.legendre_eq_neg_one_iff a

/-! ### 2. `get_point_from_x` -/

/-- `SqrtOK o` bundles what the compressed-form theorems need of a field record (negation, the order behind the sign
bit, Legendre test = squareness, the root routine returns roots, no point with `y = −y`).  It holds for both
coordinate fields of BLS12-381. -/
theorem opsFq_sqrtOK : SqrtOK opsFq := Impl.opsFq_sqrtOK
theorem opsFq2_sqrtOK : SqrtOK opsFq2 := Impl.opsFq2_sqrtOK

/-- neither curve has a point with `y = 0`: `−4` is not a cube in Fq, `−4(1+u)` not a cube in Fq2. -/
theorem G1_no_two_torsion (x y : Fq) (h : y * y = x * x * x + g1B) : y ≠ -y :=
  no_two_torsion_aux fq_two_ne_zero g1B Fq.neg_b_not_cube x y h
theorem G2_no_two_torsion (x y : Fq2) (h : y * y = x * x * x + g2B) : y ≠ -y :=
  no_two_torsion_aux Fq2.two_ne_zero g2B Fq2.neg_b_not_cube x y h

variable {F : Type} {o : FieldOps F}

/-- validating `get_point_from_x`: the result has the given abscissa, is on the curve, and its sign bit
(`isGreater o y = (o.cmp y (o.neg y) == 1)`) is the requested flag. -/
theorem fromX_checked_some (sq : SqrtOK o) {x x' y : F} {g : Bool} (h : fromX o x g true = some (x', y)) :
    x' = x ∧ o.mul y y = x3b o x ∧ isGreater o y = g := Impl.fromX_checked_some sq h

/-- it refuses exactly the abscissae above which the curve has no point. -/
theorem fromX_checked_none_iff (sq : SqrtOK o) (x : F) (g : Bool) :
    fromX o x g true = none ↔ ¬ ∃ y, o.mul y y = x3b o x := Impl.fromX_checked_none_iff sq x g

/-- every point of the curve is returned for its own abscissa and sign bit (validating or not). -/
theorem fromX_of_onCurve (sq : SqrtOK o) {x y : F} (h : o.mul y y = x3b o x) (checked : Bool) :
    fromX o x (isGreater o y) checked = some (x, y) := Impl.fromX_of_onCurve sq h checked

/-- both roots are reachable by the two flag values; they are distinct, exactly the first has its sign bit set, and
there is no third point above x. -/
theorem fromX_both (sq : SqrtOK o) {x : F} (h : ∃ y, o.mul y y = x3b o x) :
    ∃ y, o.mul y y = x3b o x ∧ y ≠ o.neg y ∧ isGreater o y = true ∧ isGreater o (o.neg y) = false ∧
      fromX o x true true = some (x, y) ∧ fromX o x false true = some (x, o.neg y) ∧
      ∀ y', o.mul y' y' = x3b o x → y' = y ∨ y' = o.neg y := Impl.fromX_both sq h

/-- exactly one of `y`, `−y` is "greater" when `y ≠ −y`; neither when `y = −y` (i.e. `y = 0`). -/
theorem isGreater_neg (sq : SqrtOK o) {y : F} (h : y ≠ o.neg y) : isGreater o (o.neg y) = !isGreater o y :=
  Impl.isGreater_neg sq h
theorem isGreater_of_eq_neg (sq : SqrtOK o) {y : F} (h : y = o.neg y) : isGreater o y = false :=
  Impl.isGreater_of_eq_neg sq h

/-- the same on the concrete fields, in the library's terms (`Fq::compare` orders Montgomery representatives). -/
theorem cmpFq_neg {y : Fq} (hy : y ≠ 0) : (cmpFq (-y) y == 1) = !(cmpFq y (-y) == 1) := by
  have hne : y ≠ -y := two_y_ne fq_two_ne_zero hy
  rw [Impl.cmpFq_antisymm hne, Bool.not_not]
theorem cmpFq2_neg {y : Fq2} (hy : y ≠ 0) : (cmpFq2 (-y) y == 1) = !(cmpFq2 y (-y) == 1) := by
  have hne : y ≠ -y := two_y_ne Fq2.two_ne_zero hy
  rw [Impl.cmpFq2_antisymm hne, Bool.not_not]

/-- G1, concretely: validating `get_point_from_x` returns `(x, y)` with `y² = x³ + 4` and the sign of `y` as flagged. -/
theorem fromX_G1 {x x' y : Fq} {g : Bool} (h : fromX opsFq x g true = some (x', y)) :
    x' = x ∧ y * y = x * x * x + g1B ∧ (cmpFq y (-y) == 1) = g := by
  have := Impl.fromX_checked_some Impl.opsFq_sqrtOK h
  rwa [opsFq_mul, x3b_opsFq, isGreater_opsFq] at this
/-- G2 likewise (`Fq2::compare`: c1 first, then c0, each on Montgomery representatives). -/
theorem fromX_G2 {x x' y : Fq2} {g : Bool} (h : fromX opsFq2 x g true = some (x', y)) :
    x' = x ∧ y * y = x * x * x + g2B ∧ (cmpFq2 y (-y) == 1) = g := by
  have := Impl.fromX_checked_some Impl.opsFq2_sqrtOK h
  rwa [opsFq2_mul, x3b_opsFq2, isGreater_opsFq2] at this

/-! ### 3. compressed round trip -/

/-- `decode ∘ encode`, compressed form, any point of the curve: non-validating (`checked = false`) and validating
(`checked = true`; then the point must pass the subgroup test `f`). -/
theorem decode_encode_compressed (ok : EncOK o) (sq : SqrtOK o) (f : Pt F → Bool) (p : Pt F) (checked : Bool)
    (hc : onCurvePt o p = true) (hs : checked = true → f p = true) :
    decode o f true checked (encode o true p) = some p := Impl.decode_encode_comp ok sq f p checked hc hs

/-- the repaired validating decode, both forms. -/
theorem decodeChecked_encode (ok : EncOK o) (sq : SqrtOK o) (inSub : Pt F → Bool) (hinf : inSub .inf = true)
    (comp : Bool) (p : Pt F) (hc : onCurvePt o p = true) (hs : inSub p = true) :
    decodeChecked o inSub comp (encode o comp p) = some p := Impl.decodeChecked_encode ok sq inSub hinf comp p hc hs

/-- compressed and uncompressed encodings decode to the same point. -/
theorem decodeChecked_compressed_eq_uncompressed (ok : EncOK o) (sq : SqrtOK o) (inSub : Pt F → Bool)
    (hinf : inSub .inf = true) (p : Pt F) (hc : onCurvePt o p = true) (hs : inSub p = true) :
    decodeChecked o inSub true (encode o true p) = decodeChecked o inSub false (encode o false p) := by
  rw [Impl.decodeChecked_encode ok sq inSub hinf true p hc hs, Impl.decodeChecked_encode ok sq inSub hinf false p hc hs]
theorem decode_compressed_eq_uncompressed (ok : EncOK o) (sq : SqrtOK o) (f : Pt F → Bool) (p : Pt F)
    (hc : onCurvePt o p = true) :
    decode o f true false (encode o true p) = decode o f false false (encode o false p) := by
  rw [Impl.decode_unchecked_encode ok sq f true p hc, Impl.decode_unchecked_encode ok sq f false p hc]

/-- the specification `decodeCanonical` round-trips in both forms (this is the statement left open in C09.lean:
`decodeCanonical_encode_compressed_partial` without its hypothesis). -/
theorem decodeCanonical_encode_both (ok : EncOK o) (sq : SqrtOK o) (inSub : Pt F → Bool) (comp : Bool) (p : Pt F)
    (hc : onCurvePt o p = true) (hs : inSub p = true) :
    decodeCanonical o inSub (onCurvePt o) comp (encode o comp p) = some p :=
  (Impl.decodeCanonical_iff ok sq inSub comp _ p).mpr ⟨hc, hs, rfl⟩

/-- G1 / G2 with the Spec's curve equation and subgroup test `[r]P = 0`; no hypothesis on y any more. -/
theorem decodeCanonical_encode_compressed_G1 (p : G1Pt) (hc : Pt.isOnCurve g1B p = true) (hs : inSubgroup p = true) :
    decodeCanonical opsFq inSubgroup (Pt.isOnCurve g1B) true (encG1 true p) = some p := by
  rw [← Impl.onCurvePt_opsFq] at hc ⊢
  exact decodeCanonical_encode_both Impl.opsFq_ok Impl.opsFq_sqrtOK _ true p hc hs
theorem decodeCanonical_encode_compressed_G2 (p : G2Pt) (hc : Pt.isOnCurve g2B p = true) (hs : inSubgroup p = true) :
    decodeCanonical opsFq2 inSubgroup (Pt.isOnCurve g2B) true (encG2 true p) = some p := by
  rw [← Impl.onCurvePt_opsFq2] at hc ⊢
  exact decodeCanonical_encode_both Impl.opsFq2_ok Impl.opsFq2_sqrtOK _ true p hc hs

theorem decode_encode_G1 (comp checked : Bool) (p : G1Pt) (hc : Pt.isOnCurve g1B p = true)
    (hs : checked = true → inSubgroup p = true) :
    decode opsFq inSubgroup comp checked (encG1 comp p) = some p :=
  Impl.decode_encode_G1 comp checked p hc hs
theorem decode_encode_G2 (comp checked : Bool) (p : G2Pt) (hc : Pt.isOnCurve g2B p = true)
    (hs : checked = true → inSubgroup p = true) :
    decode opsFq2 inSubgroup comp checked (encG2 comp p) = some p :=
  Impl.decode_encode_G2 comp checked p hc hs

/-! ### 4. canonicity: validating decode accepts exactly the encoder's output -/

/-- On buffers of the right size, the repaired validating decode returns `p` iff `p` is on the curve, in the subgroup,
and the buffer is `encode p` — in BOTH forms.  In particular (compressed form) the flag bits are `100`/`101`/`110`
exactly as the encoder sets them, the abscissa is reduced (< q), the sign bit is the canonical one, and the identity is
`0xc0` followed by zeros. -/
theorem decodeChecked_iff (ok : EncOK o) (sq : SqrtOK o) (inSub : Pt F → Bool) (hinf : inSub .inf = true)
    (comp : Bool) (bs : List UInt8) (hl : bs.length = if comp then o.size else 2 * o.size) (p : Pt F) :
    decodeChecked o inSub comp bs = some p ↔ (onCurvePt o p = true ∧ inSub p = true ∧ encode o comp p = bs) :=
  Impl.decodeChecked_iff ok sq inSub hinf comp bs hl p

/-- hence it IS the specification `decodeCanonical` (same accepted set, same results), both forms. -/
theorem decodeChecked_eq_decodeCanonical (ok : EncOK o) (sq : SqrtOK o) (inSub : Pt F → Bool)
    (hinf : inSub .inf = true) (comp : Bool) (bs : List UInt8)
    (hl : bs.length = if comp then o.size else 2 * o.size) :
    decodeChecked o inSub comp bs = decodeCanonical o inSub (onCurvePt o) comp bs :=
  Impl.decodeChecked_eq_canonical ok sq inSub hinf comp bs hl

/-- no two byte strings decode to the same point. -/
theorem decodeChecked_injective (ok : EncOK o) (sq : SqrtOK o) (inSub : Pt F → Bool) (hinf : inSub .inf = true)
    (comp : Bool) (bs bs' : List UInt8) (hl : bs.length = if comp then o.size else 2 * o.size)
    (hl' : bs'.length = if comp then o.size else 2 * o.size) (p : Pt F)
    (h : decodeChecked o inSub comp bs = some p) (h' : decodeChecked o inSub comp bs' = some p) : bs = bs' :=
  Impl.decodeChecked_injective ok sq inSub hinf comp bs bs' hl hl' p h h'

/-- G1 (48 / 96-byte buffers) and G2 (96 / 192-byte buffers). -/
theorem decodeChecked_iff_G1 (comp : Bool) (bs : List UInt8) (hl : bs.length = g1Size comp) (p : G1Pt) :
    decodeChecked opsFq inSubgroup comp bs = some p ↔
      (Pt.isOnCurve g1B p = true ∧ inSubgroup p = true ∧ encG1 comp p = bs) :=
  Impl.decodeChecked_iff_G1 comp bs hl p
theorem decodeChecked_iff_G2 (comp : Bool) (bs : List UInt8) (hl : bs.length = g2Size comp) (p : G2Pt) :
    decodeChecked opsFq2 inSubgroup comp bs = some p ↔
      (Pt.isOnCurve g2B p = true ∧ inSubgroup p = true ∧ encG2 comp p = bs) :=
  Impl.decodeChecked_iff_G2 comp bs hl p
theorem decodeChecked_eq_decodeCanonical_G1c (comp : Bool) (bs : List UInt8) (hl : bs.length = g1Size comp) :
    decodeChecked opsFq inSubgroup comp bs = decodeCanonical opsFq inSubgroup (Pt.isOnCurve g1B) comp bs :=
  Impl.decodeChecked_eq_canonical_G1 comp bs hl
theorem decodeChecked_eq_decodeCanonical_G2c (comp : Bool) (bs : List UInt8) (hl : bs.length = g2Size comp) :
    decodeChecked opsFq2 inSubgroup comp bs = decodeCanonical opsFq2 inSubgroup (Pt.isOnCurve g2B) comp bs :=
  Impl.decodeChecked_eq_canonical_G2 comp bs hl

/-! ### non-vacuity -/
example : IsSquare (4 : Fq) := ⟨2, by decide +kernel⟩
example : Fq.sqrt 4 * Fq.sqrt 4 = 4 := by decide +kernel
example : finLegendre (-1 : Fq) = -1 := by decide +kernel
example : fq2Sqrt (⟨0, 2⟩ : Fq2) * fq2Sqrt ⟨0, 2⟩ = ⟨0, 2⟩ := by decide +kernel
example : Fq2.legendre (⟨1, 1⟩ : Fq2) = -1 := by decide +kernel
example : fq2Sqrt (⟨1, 1⟩ : Fq2) * fq2Sqrt ⟨1, 1⟩ ≠ ⟨1, 1⟩ := by decide +kernel
/-- the generator of G1 comes back from its abscissa and its sign bit; the other flag value gives its negative -/
example : fromX opsFq 0x17f1d3a73197d7942695638c4fa9ac0fc3688c4f9774b905a14e3a3f171bac586c55e83ff97a1aeffb3af00adb22c6bb
    false true = some (0x17f1d3a73197d7942695638c4fa9ac0fc3688c4f9774b905a14e3a3f171bac586c55e83ff97a1aeffb3af00adb22c6bb,
      0x08b3f481e3aaa0f1a09e30ed741d8ae4fcf5e095d5d00af600db18cb2c04b3edd03cc744a2888ae40caa232946c5e7e1) := by
  decide +kernel
example : (fromX opsFq 0x17f1d3a73197d7942695638c4fa9ac0fc3688c4f9774b905a14e3a3f171bac586c55e83ff97a1aeffb3af00adb22c6bb
    true true).map (·.2) = some (-0x08b3f481e3aaa0f1a09e30ed741d8ae4fcf5e095d5d00af600db18cb2c04b3edd03cc744a2888ae40caa232946c5e7e1) := by
  decide +kernel
/-- x = 1: 1³ + 4 = 5 is not a square in Fq, validating `get_point_from_x` refuses -/
example : fromX opsFq 1 false true = none := by decide +kernel
example : decodeChecked opsFq (fun _ => true) true (encG1 true g1Gen) = some g1Gen := by decide +kernel
example : decodeChecked opsFq2 (fun _ => true) true (encG2 true g2Gen) = some g2Gen := by decide +kernel
/-- a sign bit that is not the canonical one changes the point; the flag pattern 111 is refused -/
example : decodeChecked opsFq (fun _ => true) true (orFirst (encG1 true g1Gen) 32) = some (Pt.neg g1Gen) := by
  decide +kernel
example : decodeChecked opsFq (fun _ => true) true (orFirst (encG1 true g1Gen) 64) = none := by decide +kernel

end Jedi.C09
