/-
C10 — sampling and hashing to scalars land in the right set.

`RS` / `RS.draw` (Spec/Rand.lean) is the caller-supplied `get_random_bytes` callback as an explicit,
zero-padded byte stream with counters; `randBelow` is the rejection loop of `Fq::random` /
`Fr::random` (src/bls12_381/fq.cpp, fr.cpp); `randFqRaw`, `randFrRaw` its two instances.
`hashReduce` / `zpFromHash` (defined in Proofs/MarshalProofs.lean) are `Fr::hash_reduce` and
`embedded_pairing_bls12_381_zp_from_hash`.
Property theorems only (proofs in `Proofs/MarshalProofs.lean`).
-/
import JediVerif.Proofs.MarshalProofs

namespace Jedi.C10
open Jedi Jedi.Impl

/-- one callback invocation delivers exactly the requested number of bytes … -/
theorem draw_length (s : RS) (n : Nat) : (s.draw n).1.length = n := RS.draw_length s n

/-- … namely the next n bytes of the stream, zero-padded … -/
theorem draw_eq (s : RS) (n : Nat) : (s.draw n).1 = (s.bytes ++ List.replicate n 0).take n := RS.draw_eq s n

/-- … and the counters account for each of them once (consumed or padding). -/
theorem draw_counters (s : RS) (n : Nat) :
    (s.draw n).2.used + (s.draw n).2.over = s.used + s.over + n := RS.draw_counters s n

/-- k draws of `chunk` bytes consume k·chunk bytes. -/
theorem after_counters (chunk k : Nat) (s : RS) :
    (RS.after chunk k s).used + (RS.after chunk k s).over = s.used + s.over + k * chunk :=
  RS.after_counters chunk k s

/-- the sampler's result is below the bound: for every stream and every fuel. -/
theorem randBelow_lt {bound : Nat} (hb : 0 < bound) (chunk maskBits fuel : Nat) (s : RS) :
    (randBelow chunk maskBits bound fuel s).1 < bound := Jedi.randBelow_lt hb chunk maskBits fuel s

/-- the result is the FIRST candidate (little-endian value of a draw, top bits masked) that is
below the bound — k rejected draws, then the accepted one; the stream is left just after it. -/
theorem randBelow_first_hit (chunk maskBits bound fuel k : Nat) (s : RS) (hk : k < fuel)
    (hrej : ∀ j, j < k → ¬ RS.candidate chunk maskBits (RS.after chunk j s) < bound)
    (hacc : RS.candidate chunk maskBits (RS.after chunk k s) < bound) :
    randBelow chunk maskBits bound fuel s =
      (RS.candidate chunk maskBits (RS.after chunk k s), RS.after chunk (k + 1) s) :=
  Jedi.randBelow_first_hit chunk maskBits bound fuel k s hk hrej hacc

/-- the fuel of the model (`RS.fuel`) never runs out: an accepted candidate always exists within
it (at the latest the first all-padding draw), so the value returned is a genuine first hit. -/
theorem randBelow_accepts {bound : Nat} (hb : 0 < bound) (chunk maskBits : Nat) (s : RS) :
    ∃ k, k < s.fuel chunk ∧
      (∀ j, j < k → ¬ RS.candidate chunk maskBits (RS.after chunk j s) < bound) ∧
      RS.candidate chunk maskBits (RS.after chunk k s) < bound ∧
      randBelow chunk maskBits bound (s.fuel chunk) s =
        (RS.candidate chunk maskBits (RS.after chunk k s), RS.after chunk (k + 1) s) :=
  Jedi.randBelow_accepts hb chunk maskBits s

/-- `Fq::random` and `Fr::random` return reduced values. -/
theorem randFqRaw_lt (s : RS) : (randFqRaw s).1 < q := Jedi.randBelow_lt (by decide) _ _ _ s
theorem randFrRaw_lt (s : RS) : (randFrRaw s).1 < r := Jedi.randBelow_lt (by decide) _ _ _ s

/-- every candidate is below 2^maskBits (the unused top bits are cleared). -/
theorem candidate_lt (chunk maskBits : Nat) (s : RS) : RS.candidate chunk maskBits s < 2 ^ maskBits :=
  Nat.mod_lt _ (Nat.pow_pos (by decide))

/-- hashing to Z_r: the output is a reduced scalar … -/
theorem zpFromHash_lt (bs : List UInt8) : zpFromHash bs < r := Jedi.zpFromHash_lt bs

/-- … and the conditional subtraction that the code performs is the full reduction
(top bit dropped, then mod r), because 2^255 < 2r. -/
theorem hashReduce_eq (x : Nat) : hashReduce x = x % 2 ^ 255 % r := Jedi.hashReduce_eq x
theorem cond_sub_eq_mod {x : Nat} (h : x < 2 ^ 255) : (if x < r then x else x - r) = x % r := Jedi.cond_sub_eq_mod h
theorem zpFromHash_eq_hashReduce (bs : List UInt8) : zpFromHash bs = hashReduce (ofBytesBE bs) :=
  Jedi.zpFromHash_eq_hashReduce bs

/-! non-vacuity: a rejected draw followed by an accepted one; exhaustion of the stream -/
example : let out := randBelow 1 8 200 5 { bytes := [250, 7, 9] }
    out.1 = 7 ∧ out.2.bytes = [9] ∧ out.2.used = 2 ∧ out.2.over = 0 := by decide
example : (randBelow 2 16 5 (RS.fuel { bytes := [1, 1, 2] } 2) { bytes := [1, 1, 2] }).1 = 2 := by decide
example : let out := randBelow 2 16 2 (RS.fuel { bytes := [1, 1, 2] } 2) { bytes := [1, 1, 2] }
    out.1 = 0 ∧ out.2.bytes = [] ∧ out.2.used = 3 ∧ out.2.over = 3 := by decide
example : hashReduce (r + 5) = 5 := by decide +kernel
example : zpFromHash (List.replicate 32 255) = 2 ^ 255 - 1 - r := by decide +kernel

end Jedi.C10
