/-
C18 (word layer and prime fields) — the portable C++ of /repo/include/core/bigint.hpp and fp.hpp gives the same
result when its output object IS one (or several) of its input objects as when it is a separate object.

Model (`Impl/LimbsMem.lean`): objects are arrays of words in a store indexed by object ids; every C++ function is the
exact sequence of word reads and writes it performs, and takes the ids of `this` and of its operands, so that
`x.add(x, y)` is `add B n x x y` and `z.add(x, y)` is `add B n z x y`.  For every function and every alias pattern
its C++ signature permits (an operand declared `__restrict` may not be the output object):

  * `…_model`  — run with ANY permitted assignment of ids, the output object holds exactly the limbs of the pure
                 model of `Impl/Limbs.lean` applied to the operands' limbs (and the returned carry / borrow /
                 shifted-out word is the pure one); hence the contracts of C02 apply to in-place calls
                 (`…_in_place_contract`);
  * `…_out_eq_a` (`…_out_eq_b`, `…_out_eq_a_eq_b`) — the aliased run and a run with a separate output object `r`
                 leave the same limbs in their respective output objects.

Permitted patterns, read off the signatures:
  BigInt::add / subtract (a, __restrict b)            this == &a                  (this == &b excluded)
  BigInt::shift_left_in_word<1> / shift_right_in_word<1> / shift_left / shift_right (a[, amt])   this == &a
  BigInt::multiply / square (__restrict …)            none (and the output is twice as wide)
  FpBase::add / subtract (a, __restrict b, __restrict p)   this == &a
  FpBase::multiply2 / negate (a, __restrict p)        this == &a
  FpBase::reduce / montgomery_reduce (__restrict …)   none
  FpBase::multiply (a, b, __restrict p, inv)          this == &a, this == &b, this == &a == &b
  FpBase::square (a, __restrict p, inv)               this == &a
  Fp::set / get (integer)                             the integer may be this->val;  Fp::into_montgomery_form is in place
The general shifts are covered for ALL shift amounts (finding F8: the loops as they were before the fix are shown to
differ in place, `Proofs/LimbsMemProofs.lean`, examples at the end).

Not modelled: what an optimiser may do with `__restrict` (the theorems are about the source-level order of reads and
writes); out-of-bounds accesses (the store is total; C17).  Remark recorded by the model: `FpBase::negate(a, p)` called
in place hands `this` to `BigInt::subtract(p, a.val)` as the `__restrict` operand `b` — harmless for the statement
order of `subtract` (theorem `bigint_subtract_model` needs no hypothesis), but formally outside the contract of
`__restrict`.

Correspondence: the judge (`Driver/Judge1.lean`, groups "bigint", "fp") runs these models with the alias pattern of
every op line and requires the real output, token for token.
-/
import JediVerif.Proofs.LimbsMemProofs
import JediVerif.Properties.C02

namespace Jedi.C18
open Jedi Jedi.Impl Jedi.Impl.Mem

/-! ## BigInt -/

/-- `this->add(a, b)` with `this ≠ &b`: limbs and carry of `addLoop`, whether `this == &a` or not; nothing but the `n`
words of `this` is written. -/
theorem bigint_add_model (B n : Nat) {res a b : Nat} (hb : res ≠ b) (s : Store) :
    obj (add B n res a b s).1 res n = (addLoop B (obj s a n) (obj s b n) 0).1 ∧
    (add B n res a b s).2 = (addLoop B (obj s a n) (obj s b n) 0).2 ∧
    ∀ o j, (o ≠ res ∨ n ≤ j) → (add B n res a b s).1 o j = s o j := add_spec B n hb s

/-- `a.add(a, b)` and `r.add(a, b)` (`r`, `a` different from `b`): same limbs, same carry. -/
theorem bigint_add_out_eq_a (B n : Nat) {r a b : Nat} (hab : a ≠ b) (hrb : r ≠ b) (s : Store) :
    obj (add B n a a b s).1 a n = obj (add B n r a b s).1 r n ∧ (add B n a a b s).2 = (add B n r a b s).2 := by
  obtain ⟨h1, h2, _⟩ := add_spec B n (a := a) hab s
  obtain ⟨g1, g2, _⟩ := add_spec B n (a := a) hrb s
  exact ⟨h1.trans g1.symm, h2.trans g2.symm⟩

/-- `this->subtract(a, b)`: limbs and borrow of `subLoop` for EVERY assignment of ids. -/
theorem bigint_subtract_model (B n : Nat) (res a b : Nat) (s : Store) :
    obj (sub B n res a b s).1 res n = (subLoop B (obj s a n) (obj s b n) 0).1 ∧
    (sub B n res a b s).2 = (subLoop B (obj s a n) (obj s b n) 0).2 ∧
    ∀ o j, (o ≠ res ∨ n ≤ j) → (sub B n res a b s).1 o j = s o j := sub_spec B n res a b s

theorem bigint_subtract_out_eq_a (B n : Nat) (r a b : Nat) (s : Store) :
    obj (sub B n a a b s).1 a n = obj (sub B n r a b s).1 r n ∧ (sub B n a a b s).2 = (sub B n r a b s).2 := by
  obtain ⟨h1, h2, _⟩ := sub_spec B n a a b s
  obtain ⟨g1, g2, _⟩ := sub_spec B n r a b s
  exact ⟨h1.trans g1.symm, h2.trans g2.symm⟩

/-- `this == &b` (what `FpBase::negate` does in place; not permitted by the signature): still the same limbs. -/
theorem bigint_subtract_out_eq_b (B n : Nat) (r a b : Nat) (s : Store) :
    obj (sub B n b a b s).1 b n = obj (sub B n r a b s).1 r n ∧ (sub B n b a b s).2 = (sub B n r a b s).2 := by
  obtain ⟨h1, h2, _⟩ := sub_spec B n b a b s
  obtain ⟨g1, g2, _⟩ := sub_spec B n r a b s
  exact ⟨h1.trans g1.symm, h2.trans g2.symm⟩

/-- `this->shift_left_in_word<1>(a)` (the `multiply2` of the word layer). -/
theorem bigint_shl1_model (B n : Nat) (res a : Nat) (s : Store) :
    obj (Mem.shl1 B n res a s).1 res n = (Impl.shl1 B (obj s a n)).1 ∧
    (Mem.shl1 B n res a s).2 = (Impl.shl1 B (obj s a n)).2 ∧
    ∀ o j, (o ≠ res ∨ n ≤ j) → (Mem.shl1 B n res a s).1 o j = s o j := shl1_spec B n res a s

theorem bigint_shl1_out_eq_a (B n : Nat) (r a : Nat) (s : Store) :
    obj (Mem.shl1 B n a a s).1 a n = obj (Mem.shl1 B n r a s).1 r n ∧
    (Mem.shl1 B n a a s).2 = (Mem.shl1 B n r a s).2 := by
  obtain ⟨h1, h2, _⟩ := shl1_spec B n a a s
  obtain ⟨g1, g2, _⟩ := shl1_spec B n r a s
  exact ⟨h1.trans g1.symm, h2.trans g2.symm⟩

/-- `this->shift_right_in_word<1>(a)`. -/
theorem bigint_shr1_model (B n : Nat) (res a : Nat) (s : Store) :
    obj (Mem.shr1 B n res a s).1 res n = (Impl.shr1 B (obj s a n)).1 ∧
    (Mem.shr1 B n res a s).2 = (Impl.shr1 B (obj s a n)).2 ∧
    ∀ o j, (o ≠ res ∨ n ≤ j) → (Mem.shr1 B n res a s).1 o j = s o j := shr1_spec B n res a s

theorem bigint_shr1_out_eq_a (B n : Nat) (r a : Nat) (s : Store) :
    obj (Mem.shr1 B n a a s).1 a n = obj (Mem.shr1 B n r a s).1 r n ∧
    (Mem.shr1 B n a a s).2 = (Mem.shr1 B n r a s).2 := by
  obtain ⟨h1, h2, _⟩ := shr1_spec B n a a s
  obtain ⟨g1, g2, _⟩ := shr1_spec B n r a s
  exact ⟨h1.trans g1.symm, h2.trans g2.symm⟩

/-- `this->shift_left(a, amt)`, word width `w`, EVERY `amt`: the words of the pure model `shiftLeftF` (word `j` is 0
below the word offset, else `(a[j-wo] << bo) | (a[j-wo-1] >> (w-bo))`) and the same returned word. -/
theorem bigint_shift_left_model (w n res a amt : Nat) (s : Store) :
    obj (shiftLeft w n res a amt s).1 res n = (shiftLeftF w (obj s a n) amt).1 ∧
    (shiftLeft w n res a amt s).2 = (shiftLeftF w (obj s a n) amt).2 ∧
    ∀ o j, o ≠ res → (shiftLeft w n res a amt s).1 o j = s o j := shiftLeft_spec w n res a amt s

/-- F8: `x.shift_left(x, amt)` equals `r.shift_left(x, amt)` for every shift amount. -/
theorem bigint_shift_left_out_eq_a (w n r a amt : Nat) (s : Store) :
    obj (shiftLeft w n a a amt s).1 a n = obj (shiftLeft w n r a amt s).1 r n ∧
    (shiftLeft w n a a amt s).2 = (shiftLeft w n r a amt s).2 := by
  obtain ⟨h1, h2, _⟩ := shiftLeft_spec w n a a amt s
  obtain ⟨g1, g2, _⟩ := shiftLeft_spec w n r a amt s
  exact ⟨h1.trans g1.symm, h2.trans g2.symm⟩

/-- … and what it computes: for a well-formed `a` (`w`-bit words, `w > 0`), `x.shift_left(a, amt)` leaves
`a · 2^amt mod 2^(w·n)` in `x`, for every `amt`, whether `x` is `a` or not (no C02 statement exists for the general
shifts; this is it). -/
theorem bigint_shift_left_value {w : Nat} (hw : 0 < w) (n res a amt : Nat) (s : Store) (ha : WF (2 ^ w) (obj s a n)) :
    WF (2 ^ w) (obj (shiftLeft w n res a amt s).1 res n) ∧
    val (2 ^ w) (obj (shiftLeft w n res a amt s).1 res n) = (val (2 ^ w) (obj s a n) * 2 ^ amt) % (2 ^ w) ^ n := by
  rw [(shiftLeft_spec w n res a amt s).1]
  obtain ⟨h1, _, h3⟩ := shiftLeftF_val hw ha amt
  rw [obj_length] at h3
  exact ⟨h1, h3⟩

/-- `this->shift_right(a, amt)`, EVERY `amt`. -/
theorem bigint_shift_right_model (w n res a amt : Nat) (s : Store) :
    obj (shiftRight w n res a amt s).1 res n = (shiftRightF w (obj s a n) amt).1 ∧
    (shiftRight w n res a amt s).2 = (shiftRightF w (obj s a n) amt).2 ∧
    ∀ o j, o ≠ res → (shiftRight w n res a amt s).1 o j = s o j := shiftRight_spec w n res a amt s

/-- F8: `x.shift_right(x, amt)` equals `r.shift_right(x, amt)` for every shift amount (the one in-library use is
`divisortimesreciprocal.shift_right(divisortimesreciprocal, 384+254)`, curve_fast_multiply.cpp). -/
theorem bigint_shift_right_out_eq_a (w n r a amt : Nat) (s : Store) :
    obj (shiftRight w n a a amt s).1 a n = obj (shiftRight w n r a amt s).1 r n ∧
    (shiftRight w n a a amt s).2 = (shiftRight w n r a amt s).2 := by
  obtain ⟨h1, h2, _⟩ := shiftRight_spec w n a a amt s
  obtain ⟨g1, g2, _⟩ := shiftRight_spec w n r a amt s
  exact ⟨h1.trans g1.symm, h2.trans g2.symm⟩

/-- `x.shift_right(a, amt)` leaves `⌊a / 2^amt⌋` in `x`, for every `amt`, whether `x` is `a` or not. -/
theorem bigint_shift_right_value {w : Nat} (hw : 0 < w) (n res a amt : Nat) (s : Store) (ha : WF (2 ^ w) (obj s a n)) :
    WF (2 ^ w) (obj (shiftRight w n res a amt s).1 res n) ∧
    val (2 ^ w) (obj (shiftRight w n res a amt s).1 res n) = val (2 ^ w) (obj s a n) / 2 ^ amt := by
  rw [(shiftRight_spec w n res a amt s).1]
  obtain ⟨h1, _, h3⟩ := shiftRightF_val hw ha amt
  exact ⟨h1, h3⟩

/-- `this->multiply(a, b)`: both operands are `__restrict` (no alias pattern with the output, which is `na + nb` words
wide anyway); `&a == &b` is allowed.  The limbs of `mulLoop`; only `this` is written. -/
theorem bigint_multiply_model (B na nb : Nat) {res a b : Nat} (hna : 0 < na) (ha : a ≠ res) (hb : b ≠ res) (s : Store) :
    obj (mul B na nb res a b s) res (na + nb) = mulLoop B (obj s a na) (obj s b nb) ∧
    ∀ o x, o ≠ res → mul B na nb res a b s o x = s o x := mul_spec B na nb hna ha hb s

/-- `this->square(a)`: `a` is `__restrict`.  The limbs of `sqrLoop` (including the mixed word / double-word accesses
of the doubling step); only `this` is written. -/
theorem bigint_square_model (B n : Nat) {res a : Nat} (hn : 2 ≤ n) (ha : a ≠ res) (s : Store) :
    obj (sqr B n res a s) res (2 * n) = sqrLoop B (obj s a n) ∧
    ∀ o x, o ≠ res → sqr B n res a s o x = s o x := sqr_spec B n hn ha s

/-- the read-only functions see the operands' limbs -/
theorem bigint_compare_model (n a b : Nat) (s : Store) : Mem.cmp n a b s = Impl.cmp (obj s a n) (obj s b n) :=
  cmp_spec n a b s
theorem bigint_is_zero_model (n a : Nat) (s : Store) : Mem.isZero n a s = Impl.isZero (obj s a n) := isZero_spec n a s

/-! ## FpBase / Fp (modulus object `p`; `tmp` is the local `BigInt<2*bits> tmp`, an object different from all operands) -/

theorem fp_add_model (B n : Nat) {res a b p : Nat} (hb : res ≠ b) (hp : res ≠ p) (s : Store) :
    obj (Mem.fpAdd B n res a b p s) res n = Impl.fpAdd B (obj s a n) (obj s b n) (obj s p n) ∧
    ∀ o j, (o ≠ res ∨ n ≤ j) → Mem.fpAdd B n res a b p s o j = s o j := fpAdd_spec B n hb hp s

/-- `a.add(a, b)` = `r.add(a, b)` -/
theorem fp_add_out_eq_a (B n : Nat) {r a b p : Nat} (hab : a ≠ b) (hap : a ≠ p) (hrb : r ≠ b) (hrp : r ≠ p) (s : Store) :
    obj (Mem.fpAdd B n a a b p s) a n = obj (Mem.fpAdd B n r a b p s) r n :=
  (fpAdd_spec B n (a := a) hab hap s).1.trans (fpAdd_spec B n (a := a) hrb hrp s).1.symm

theorem fp_subtract_model (B n : Nat) {res p : Nat} (a b : Nat) (hp : res ≠ p) (s : Store) :
    obj (Mem.fpSub B n res a b p s) res n = Impl.fpSub B (obj s a n) (obj s b n) (obj s p n) ∧
    ∀ o j, (o ≠ res ∨ n ≤ j) → Mem.fpSub B n res a b p s o j = s o j := fpSub_spec B n a b hp s

theorem fp_subtract_out_eq_a (B n : Nat) {r a p : Nat} (b : Nat) (hap : a ≠ p) (hrp : r ≠ p) (s : Store) :
    obj (Mem.fpSub B n a a b p s) a n = obj (Mem.fpSub B n r a b p s) r n :=
  (fpSub_spec B n a b hap s).1.trans (fpSub_spec B n a b hrp s).1.symm

theorem fp_multiply2_model (B n : Nat) {res p : Nat} (a : Nat) (hp : res ≠ p) (s : Store) :
    obj (Mem.fpDbl B n res a p s) res n = Impl.fpDbl B (obj s a n) (obj s p n) ∧
    ∀ o j, (o ≠ res ∨ n ≤ j) → Mem.fpDbl B n res a p s o j = s o j := fpDbl_spec B n a hp s

theorem fp_multiply2_out_eq_a (B n : Nat) {r a p : Nat} (hap : a ≠ p) (hrp : r ≠ p) (s : Store) :
    obj (Mem.fpDbl B n a a p s) a n = obj (Mem.fpDbl B n r a p s) r n :=
  (fpDbl_spec B n a hap s).1.trans (fpDbl_spec B n a hrp s).1.symm

theorem fp_negate_model (B n : Nat) (res a p : Nat) (s : Store) :
    obj (Mem.fpNeg B n res a p s) res n = Impl.fpNeg B (obj s a n) (obj s p n) ∧
    ∀ o j, (o ≠ res ∨ n ≤ j) → Mem.fpNeg B n res a p s o j = s o j := fpNeg_spec B n res a p s

theorem fp_negate_out_eq_a (B n : Nat) (r a p : Nat) (s : Store) :
    obj (Mem.fpNeg B n a a p s) a n = obj (Mem.fpNeg B n r a p s) r n :=
  (fpNeg_spec B n a a p s).1.trans (fpNeg_spec B n r a p s).1.symm

/-- `this->reduce(a, p)`: both operands `__restrict`. -/
theorem fp_reduce_model (B n : Nat) (res a p : Nat) (s : Store) :
    obj (Mem.reduce B n res a p s) res n = Impl.fpReduce B (obj s a n) (obj s p n) ∧
    ∀ o j, (o ≠ res ∨ n ≤ j) → Mem.reduce B n res a p s o j = s o j := reduce_spec B n res a p s

/-- `this->montgomery_reduce(a, p, inv)`: `a` (2n words, consumed) and `p` are `__restrict`; the result is read from the
upper half of `a` (`reinterpret_cast`).  Only `this` and `a` are written. -/
theorem fp_montgomery_reduce_model (B n inv : Nat) {res a p : Nat} (hn : 0 < n) (ha : a ≠ res) (hp : p ≠ a) (s : Store) :
    obj (Mem.montReduce B n res a p inv s) res n = Impl.montReduce B n (obj s a (2 * n)) (obj s p n) inv ∧
    ∀ o x, o ≠ res → o ≠ a → Mem.montReduce B n res a p inv s o x = s o x := montReduce_spec B n inv hn ha hp s

/-- `this->multiply(a, b, p, inv)`: the only conditions are on the local `tmp`; `this`, `a`, `b` may coincide in any way. -/
theorem fp_multiply_model (B n inv : Nat) {res a b p tmp : Nat} (hn : 0 < n) (h1 : tmp ≠ res) (h2 : a ≠ tmp) (h3 : b ≠ tmp)
    (h4 : p ≠ tmp) (s : Store) :
    obj (Mem.fpMul B n res a b p inv tmp s) res n = Impl.fpMul B n (obj s a n) (obj s b n) (obj s p n) inv ∧
    ∀ o x, o ≠ res → o ≠ tmp → Mem.fpMul B n res a b p inv tmp s o x = s o x := fpMul_spec B n inv hn h1 h2 h3 h4 s

theorem fp_multiply_out_eq_a (B n inv : Nat) {r a b p tmp : Nat} (hn : 0 < n) (hr : tmp ≠ r) (ha : a ≠ tmp) (hb : b ≠ tmp)
    (hp : p ≠ tmp) (s : Store) :
    obj (Mem.fpMul B n a a b p inv tmp s) a n = obj (Mem.fpMul B n r a b p inv tmp s) r n :=
  (fpMul_spec B n inv hn (Ne.symm ha) ha hb hp s).1.trans (fpMul_spec B n inv hn hr ha hb hp s).1.symm

theorem fp_multiply_out_eq_b (B n inv : Nat) {r a b p tmp : Nat} (hn : 0 < n) (hr : tmp ≠ r) (ha : a ≠ tmp) (hb : b ≠ tmp)
    (hp : p ≠ tmp) (s : Store) :
    obj (Mem.fpMul B n b a b p inv tmp s) b n = obj (Mem.fpMul B n r a b p inv tmp s) r n :=
  (fpMul_spec B n inv hn (Ne.symm hb) ha hb hp s).1.trans (fpMul_spec B n inv hn hr ha hb hp s).1.symm

/-- `x.multiply(x, x)` = `r.multiply(x, x)` -/
theorem fp_multiply_out_eq_a_eq_b (B n inv : Nat) {r a p tmp : Nat} (hn : 0 < n) (hr : tmp ≠ r) (ha : a ≠ tmp)
    (hp : p ≠ tmp) (s : Store) :
    obj (Mem.fpMul B n a a a p inv tmp s) a n = obj (Mem.fpMul B n r a a p inv tmp s) r n :=
  (fpMul_spec B n inv hn (Ne.symm ha) ha ha hp s).1.trans (fpMul_spec B n inv hn hr ha ha hp s).1.symm

theorem fp_square_model (B n inv : Nat) {res a p tmp : Nat} (hn : 2 ≤ n) (h1 : tmp ≠ res) (h2 : a ≠ tmp) (h4 : p ≠ tmp)
    (s : Store) :
    obj (Mem.fpSqr B n res a p inv tmp s) res n = Impl.fpSqr B n (obj s a n) (obj s p n) inv ∧
    ∀ o x, o ≠ res → o ≠ tmp → Mem.fpSqr B n res a p inv tmp s o x = s o x := fpSqr_spec B n inv hn h1 h2 h4 s

theorem fp_square_out_eq_a (B n inv : Nat) {r a p tmp : Nat} (hn : 2 ≤ n) (hr : tmp ≠ r) (ha : a ≠ tmp) (hp : p ≠ tmp)
    (s : Store) :
    obj (Mem.fpSqr B n a a p inv tmp s) a n = obj (Mem.fpSqr B n r a p inv tmp s) r n :=
  (fpSqr_spec B n inv hn (Ne.symm ha) ha hp s).1.trans (fpSqr_spec B n inv hn hr ha hp s).1.symm

/-- `Fp::set(integer)` -/
theorem fp_set_model (B n inv : Nat) {res x r2 p tmp : Nat} (hn : 0 < n) (h1 : tmp ≠ res) (h2 : x ≠ tmp) (h3 : r2 ≠ tmp)
    (h4 : p ≠ tmp) (s : Store) :
    obj (Mem.fpSet B n res x r2 p inv tmp s) res n = Impl.fpSet B n (obj s x n) (obj s r2 n) (obj s p n) inv :=
  fpSet_spec B n inv hn h1 h2 h3 h4 s

/-- `Fp::into_montgomery_form()` is `set(this->val)` in place -/
theorem fp_into_montgomery_form_model (B n inv : Nat) {res r2 p tmp : Nat} (hn : 0 < n) (h1 : tmp ≠ res) (h3 : r2 ≠ tmp)
    (h4 : p ≠ tmp) (s : Store) :
    obj (Mem.fpIntoMont B n res r2 p inv tmp s) res n = Impl.fpSet B n (obj s res n) (obj s r2 n) (obj s p n) inv :=
  fpIntoMont_spec B n inv hn h1 h3 h4 s

/-- `Fp::get(integer)`; `x.get(x.val)` = `x.get(r)` -/
theorem fp_get_model (B n inv : Nat) {res p tmp : Nat} (a : Nat) (hn : 0 < n) (h1 : tmp ≠ res) (h4 : p ≠ tmp) (s : Store) :
    obj (Mem.fpGet B n res a p inv tmp s) res n = Impl.fpGet B n (obj s a n) (obj s p n) inv ∧
    ∀ o x, o ≠ res → o ≠ tmp → Mem.fpGet B n res a p inv tmp s o x = s o x := fpGet_spec B n inv a hn h1 h4 s

theorem fp_get_out_eq_a (B n inv : Nat) {r a p tmp : Nat} (hn : 0 < n) (hr : tmp ≠ r) (ha : tmp ≠ a) (hp : p ≠ tmp) (s : Store) :
    obj (Mem.fpGet B n a a p inv tmp s) a n = obj (Mem.fpGet B n r a p inv tmp s) r n :=
  (fpGet_spec B n inv a hn ha hp s).1.trans (fpGet_spec B n inv a hn hr hp s).1.symm

/-! ## The C02 contracts hold for in-place calls (three representative instances) -/

/-- `x.add(x, y)` on well-formed objects: `x' + B^n·carry = x + y`. -/
theorem bigint_add_in_place_contract (B n : Nat) {a b : Nat} (hab : a ≠ b) (s : Store)
    (ha : WF B (obj s a n)) (hb : WF B (obj s b n)) :
    WF B (obj (add B n a a b s).1 a n) ∧
    val B (obj (add B n a a b s).1 a n) + B ^ n * (add B n a a b s).2 = val B (obj s a n) + val B (obj s b n) := by
  obtain ⟨h1, h2, _⟩ := add_spec B n (a := a) hab s
  obtain ⟨c1, _, _, c4⟩ := C02.bigint_add (c := 0) ha hb (by simp [obj]) (by omega)
  rw [h1, h2]
  refine ⟨c1, ?_⟩
  simpa [obj] using c4

/-- `x.add(x, y)` in the field: `(x + y) mod P` for reduced operands. -/
theorem fp_add_in_place_contract (B n : Nat) {a b p : Nat} (hab : a ≠ b) (hap : a ≠ p) (s : Store)
    (ha : WF B (obj s a n)) (hb : WF B (obj s b n)) (hp : WF B (obj s p n))
    (hlt : val B (obj s a n) < val B (obj s p n)) (hlt' : val B (obj s b n) < val B (obj s p n)) :
    val B (obj (Mem.fpAdd B n a a b p s) a n) = (val B (obj s a n) + val B (obj s b n)) % val B (obj s p n) := by
  rw [(fpAdd_spec B n (a := a) hab hap s).1]
  exact (C02.fp_add ha hb hp (by simp [obj]) (by simp [obj]) hlt hlt').2.2

/-- `x.multiply(x, x)` (Montgomery): reduced, and `x'·B^n ≡ x·x (mod P)`. -/
theorem fp_multiply_in_place_contract (B n inv : Nat) {a p tmp : Nat} (hn : 0 < n) (hat : a ≠ tmp) (hpt : p ≠ tmp) (s : Store)
    (ha : WF B (obj s a n)) (hp : WF B (obj s p n))
    (hinv : (inv * val B (obj s p n) + 1) % B = 0) (hlt : val B (obj s a n) < val B (obj s p n))
    (h2P : 2 * val B (obj s p n) ≤ B ^ n) :
    val B (obj (Mem.fpMul B n a a a p inv tmp s) a n) < val B (obj s p n) ∧
    (val B (obj (Mem.fpMul B n a a a p inv tmp s) a n) * B ^ n) % val B (obj s p n)
      = (val B (obj s a n) * val B (obj s a n)) % val B (obj s p n) := by
  rw [(fpMul_spec B n inv hn (Ne.symm hat) hat hat hpt s).1]
  obtain ⟨_, _, c3, c4⟩ := C02.fp_multiply (n := n) (inv := inv) ha ha hp (by simp [obj]) hn (by simp [obj]) (by simp [obj])
    hinv hlt hlt h2P
  exact ⟨c3, c4⟩

/-! ## Non-vacuity (base 16, three limbs, P = 2039 = [7,15,7], inv = 9; object 1 = x, 2 = y, 3 = P, 5 = tmp) -/

/-- the hypotheses of `fp_multiply_in_place_contract` hold for x = [5,11,5] and the conclusion is a statement about a
non-trivial in-place run -/
example :
    let s := put (put (fill 10) 1 [5, 11, 5]) 3 [7, 15, 7]
    WF 16 (obj s 1 3) ∧ WF 16 (obj s 3 3) ∧ (9 * val 16 (obj s 3 3) + 1) % 16 = 0 ∧
    val 16 (obj s 1 3) < val 16 (obj s 3 3) ∧ 2 * val 16 (obj s 3 3) ≤ 16 ^ 3 ∧
    obj (Mem.fpMul 16 3 1 1 1 3 9 5 s) 1 3 = [14, 3, 5] ∧ obj s 1 3 = [5, 11, 5] := by decide

/-- in-place and out-of-place shifts of x = [7,9,3] by 5 bits (one 4-bit word and one bit) -/
example :
    let s := put (fill 10) 1 [7, 9, 3]
    obj (shiftLeft 4 3 1 1 5 s).1 1 3 = [0, 14, 2] ∧ obj (shiftLeft 4 3 0 1 5 s).1 0 3 = [0, 14, 2] ∧
    obj (shiftRight 4 3 1 1 5 s).1 1 3 = [12, 1, 0] ∧ obj (shiftRight 4 3 0 1 5 s).1 0 3 = [12, 1, 0] := by decide

end Jedi.C18
