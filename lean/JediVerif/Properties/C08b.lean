/-
C08 (continued) — the final exponentiation is multiplicative, hence the pairing-product routine returns the product of
the single pairings.

Property theorems only (lemmas: Proofs/FinalExp.lean).  `final_exponentiation` / `final_exponentiation_oa` are the
translator's output for pairing.cpp (`_oa`: output object = input object, the way `pairing` and `pairing_product`
call it); `Impl.pairing`, `Impl.pairingPrepared`, `Impl.pairingProduct` are the hand-written wrappers of
Impl/Miller.lean.  `K` is any field with any constant tables satisfying the table relations `LawfulFrob`
(proved for the library's tables over Fq in Proofs/FqTower.lean).  No hypothesis on the arguments: the statements hold
for all of Fq12, zero and zero divisors of the generic tower included (the generated inversion is "adjugate times
inverse of the norm", which is multiplicative with `0⁻¹ = 0`).
-/
import JediVerif.Proofs.FinalExp

namespace Jedi.C08
open Jedi Jedi.Gen Jedi.Impl

section
variable {K : Type} [Field K] [TowerConsts K]

/-- the final exponentiation of a product is the product of the final exponentiations — for ALL arguments. -/
theorem final_exponentiation_multiplicative (h : LawfulFrob K) (x y : Q12 K) :
    final_exponentiation (x * y) = final_exponentiation x * final_exponentiation y :=
  FinalExp.final_exponentiation_mul h x y

/-- the final exponentiation maps 1 to 1. -/
theorem final_exponentiation_unit (h : LawfulFrob K) : final_exponentiation (1 : Q12 K) = 1 :=
  FinalExp.final_exponentiation_one h

/-- the in-place variant (output object = input object) computes the same function, so it is multiplicative too. -/
theorem final_exponentiation_inplace_multiplicative (h : LawfulFrob K) (x y : Q12 K) :
    final_exponentiation_oa (x * y) = final_exponentiation_oa x * final_exponentiation_oa y ∧
      final_exponentiation_oa (1 : Q12 K) = 1 ∧ final_exponentiation_oa x = final_exponentiation x :=
  ⟨FinalExp.final_exponentiation_oa_mul h x y, FinalExp.final_exponentiation_oa_one h, rfl⟩

/-- the final exponentiation of a product of any number of factors (zero included) is the product of the final
exponentiations of the factors. -/
theorem final_exponentiation_of_product (h : LawfulFrob K) (l : List (Q12 K)) :
    final_exponentiation l.prod = (l.map final_exponentiation).prod :=
  FinalExp.final_exponentiation_prod h l
end

section
variable {K : Type} [Field K] [DecidableEq K] [TowerConsts K]

/-- **C08**: the pairing-product routine — plain and prepared pairs in any mixture, any lengths including zero,
identity points included — returns the product of the single pairings of its pairs. -/
theorem pairing_product_eq_product_of_pairings (h : LawfulFrob K)
    (as : List (Aff K × Aff (Q2 K))) (ps : List (Aff K × Prepared K)) :
    pairingProduct as ps =
      (as.map fun p => pairing p.1 p.2).prod * (ps.map fun p => pairingPrepared p.1 p.2).prod :=
  FinalExp.pairingProduct_eq_prod h as ps

/-- the same with every plain pair replaced by its prepared form: the multi-pairing over prepared second arguments
equals the product of the plain single pairings. -/
theorem prepared_pairing_product_eq_product_of_pairings (h : LawfulFrob K) (as : List (Aff K × Aff (Q2 K))) :
    pairingProduct [] (as.map fun p => (p.1, prepare p.2)) = (as.map fun p => pairing p.1 p.2).prod := by
  rw [FinalExp.pairingProduct_eq_prod h, List.map_nil, List.prod_nil, one_mul, List.map_map]
  have h' : ∀ p ∈ as, ((fun p => pairingPrepared p.1 p.2) ∘ fun (p : Aff K × Aff (Q2 K)) => (p.1, prepare p.2)) p =
      (fun p => pairing p.1 p.2) p := by
    rintro ⟨g1, g2⟩ _
    simp only [Function.comp_apply]
    rw [pairingPrepared_eq g1 g2]
  rw [List.map_congr_left h']

/-- the empty pairing product is 1. -/
theorem pairing_product_empty (h : LawfulFrob K) :
    pairingProduct ([] : List (Aff K × Aff (Q2 K))) ([] : List (Aff K × Prepared K)) = 1 := by
  rw [FinalExp.pairingProduct_eq_prod h]; simp

/-- non-vacuity: the hypothesis `LawfulFrob` is satisfiable (here: identity tables over any commutative ring; the
library's tables over Fq are the instance that matters, Proofs/FqTower.lean). -/
example {R : Type} [CommRing R] :
    @LawfulFrob R _ ⟨fun _ => 1, fun _ => 1, fun _ => 1, fun _ => 1, 0, 0⟩ := by
  refine @LawfulFrob.mk R _ ⟨fun _ => 1, fun _ => 1, fun _ => 1, fun _ => 1, 0, 0⟩ ?_ ?_ ?_ ?_ <;> intro k <;>
    simp only [one_pow, one_mul]
end

end Jedi.C08
