/-
C19 — the C interface is a faithful view of the C++ implementation (layout half).

Data: `JediVerif/Gen/Layout.lean`, regenerated from the repository's working tree by
`translate/layout2lean.py` on every run.  For each word-size configuration

* `cfg64` — default flags: 64-bit words, `unsigned __int128` double words;
* `cfg32` — `-U__SIZEOF_INT128__` (C++ side also `-DDISABLE_ASM`): 32-bit words, 64-bit double words;
* `cfg64p` — `-DDISABLE_ASM` on both sides: portable build with 64-bit words;

the translator compiles a C program (gcc -std=c11, only the four `.h` files) and a C++ program
(g++ -std=c++17, only the `.hpp` files) and records `sizeof`, alignment, and the offset and size
of every member, for every row of the *pairing table*: (C struct, C++ type the wrappers
`reinterpret_cast` it to).  The C structs are found textually in the headers; the partners come
from the casts in `src/{bls12_381/bls12_381,wkdibe/wkdibe,lqibe/lqibe}.cpp`, closed under
members (if `S` is viewed as `T` and `S.m : U`, then `U` is viewed as the type of `T.m`).
Private C++ members (`AffinePair::r`, `PreparedPair::coeff_idx`) are measured on the unmodified
class through pointers-to-member obtained by explicit template instantiation.

Every theorem below is a closed statement about those finite tables and is decided completely.
The trusted part is the extraction (compilers + translator), as stated in DESIGN §C19.
-/
import JediVerif.Gen.Layout

namespace Jedi.C19
open Jedi.Gen.Layout

/-! ### Layout equality -/

/-- cfg64: every C struct has the same size, alignment, member offsets and member sizes as each
C++ type it is reinterpret_cast to (rows are literally equal; C++ members carry the C names). -/
theorem layout_equal_cfg64 : c_cfg64 = cpp_cfg64 := by decide

/-- cfg32: the same with 32-bit words (no `__int128`). -/
theorem layout_equal_cfg32 : c_cfg32 = cpp_cfg32 := by decide

/-- cfg64p: the portable build with 64-bit words (`-DDISABLE_ASM` on both sides; the C headers must select the same word types
as the C++ templates whether or not the assembly is disabled). -/
theorem layout_equal_cfg64p : c_cfg64p = cpp_cfg64p := by decide

/-- name of a row of the layout tables -/
def rowName (p : String × String) : String := p.1 ++ " = " ++ p.2

/-- The rows of the tables are exactly the pairing table, in order (so the equalities above speak
about every pairing, and about nothing else). -/
theorem rows_are_pairing_cfg64 : c_cfg64.map (·.name) = pairing.map rowName := by decide
theorem rows_are_pairing_cfg32 : c_cfg32.map (·.name) = pairing.map rowName := by decide
theorem rows_are_pairing_cfg64p : c_cfg64p.map (·.name) = pairing.map rowName := by decide

/-- Every struct declared in a C header occurs in the pairing table (a struct added to a header
without a C++ partner makes the translator fail; this restates it over the emitted data). -/
theorem every_c_struct_paired : ∀ s ∈ c_structs, s ∈ pairing.map Prod.fst := by decide

/-- … and the pairing table mentions only structs of the headers. -/
theorem pairing_only_c_structs : ∀ p ∈ pairing, p.1 ∈ c_structs := by decide

/-- The pairing table is closed under members by construction; the struct-typed members are
`fq_t`, `fq2_t`, … whose own rows are in the table.  Witness: the rows the member closure adds. -/
theorem closure_rows_present :
    ("embedded_pairing_bls12_381_fq_t", "embedded_pairing::bls12_381::Fq") ∈ pairing ∧
    ("embedded_pairing_bls12_381_fq2_t", "embedded_pairing::bls12_381::Fq2") ∈ pairing ∧
    ("embedded_pairing_bls12_381_fq6_t", "embedded_pairing::bls12_381::Fq6") ∈ pairing ∧
    ("embedded_pairing_core_bigint_384_t", "embedded_pairing::core::BigInt<384>") ∈ pairing ∧
    ("embedded_pairing_wkdibe_attribute_t", "embedded_pairing::wkdibe::Attribute") ∈ pairing ∧
    ("embedded_pairing_wkdibe_freeslot_t", "embedded_pairing::wkdibe::FreeSlot") ∈ pairing := by decide

/-! ### Constants -/

/-- The literal `68` of `coeffs[68]` in `bls12_381.h` is `G2Prepared::num_coeffs`. -/
theorem coeffs_len : coeffs_len_c = num_coeffs_cpp := by decide
theorem coeffs_len_cfg32 : coeffs_len_c = num_coeffs_cpp_cfg32 := by decide

/-- The exported `size_t` constants (read from the bytes of the C symbols in the object compiled
from `bls12_381.cpp`) equal `sizeof` of the `Encoding<…>` overlays / of `Fq12`. -/
theorem sizes_equal_cfg64 : sizes_c_cfg64 = sizes_cpp_cfg64 := by decide
theorem sizes_equal_cfg32 : sizes_c_cfg32 = sizes_cpp_cfg32 := by decide
theorem sizes_equal_cfg64p : sizes_c_cfg64p = sizes_cpp_cfg64p := by decide

/-- The marshalled sizes do not depend on the word size. -/
theorem sizes_config_independent : sizes_c_cfg64 = sizes_c_cfg32 := by decide

/-- The word / double-word typedefs of `core.h` have the sizes of `BigInt<…>::word_t / dword_t`. -/
theorem word_typedefs_agree_cfg64 : word_sizes_c_cfg64 = word_sizes_cpp_cfg64 := by decide
theorem word_typedefs_agree_cfg32 : word_sizes_c_cfg32 = word_sizes_cpp_cfg32 := by decide
theorem word_typedefs_agree_cfg64p : word_sizes_c_cfg64p = word_sizes_cpp_cfg64p := by decide
/-- disabling the assembly does not change the C view: the portable 64-bit build has the layout of the default build. -/
theorem layout_asm_independent : c_cfg64p = c_cfg64 ∧ cpp_cfg64p = cpp_cfg64 := by decide

/-! ### Overlay structs (input to C17)

`overlays_<cfg>`: every struct defined in, or pointer-cast to in, the marshalling sources
(`src/wkdibe/marshal.cpp`, `src/lqibe/marshal.cpp`, `src/lqibe/api.cpp`), i.e. the types laid over
caller-supplied byte buffers (plus lqibe's `SymmetricKeyHashBuffer`).  Names are the demangled type
names with `embedded_pairing::` removed.

C17 needs "every overlay has alignment 1" (history: false before the repair of FreeSlotMarshalled):
`wkdibe::FreeSlotMarshalled<c>` contains `uint32_t idx`, so it has alignment 4 (and trailing/inner
layout that assumes a 4-aligned buffer).  What holds is stated precisely instead. -/

/-- Every struct overlaid on a caller-supplied byte buffer has alignment 1 (used by C17; this was false
before the repair of `FreeSlotMarshalled`, whose `uint32_t idx` gave it alignment 4). -/
theorem overlay_alignment_cfg64 : ∀ r ∈ overlays_cfg64, r.align = 1 := by decide
theorem overlay_alignment_cfg32 : ∀ r ∈ overlays_cfg32, r.align = 1 := by decide
theorem overlay_alignment_cfg64p : ∀ r ∈ overlays_cfg64p, r.align = 1 := by decide

/-- The overlay layouts do not depend on the word size. -/
theorem overlays_config_independent : overlays_cfg64 = overlays_cfg32 := by decide

/-- Each exported G1/G2 size constant is the size of the corresponding byte-array overlay
(ties the C constants to the types actually laid over the buffers). -/
theorem encoding_overlay_sizes_cfg64 :
    ∀ p ∈ [("bls12_381::Encoding<bls12_381::G1Affine, true>", "embedded_pairing_bls12_381_g1_marshalled_compressed_size"),
           ("bls12_381::Encoding<bls12_381::G1Affine, false>", "embedded_pairing_bls12_381_g1_marshalled_uncompressed_size"),
           ("bls12_381::Encoding<bls12_381::G2Affine, true>", "embedded_pairing_bls12_381_g2_marshalled_compressed_size"),
           ("bls12_381::Encoding<bls12_381::G2Affine, false>", "embedded_pairing_bls12_381_g2_marshalled_uncompressed_size")],
      ∃ r ∈ overlays_cfg64, r.name = p.1 ∧ (p.2, r.size) ∈ sizes_c_cfg64 := by decide

/-! ### Non-vacuity -/

example : 20 ≤ c_cfg64.length ∧ 20 ≤ cpp_cfg64.length ∧ 20 ≤ c_cfg32.length := by decide
example : 28 ≤ c_structs.length := by decide
example : ∃ r ∈ c_cfg64, 3 ≤ r.offsets.length := by decide
/-- the table sees real padding: `infinity` after two 48-byte coordinates, struct rounded to 112 -/
example : ∃ r ∈ cpp_cfg64, r.name = rowName ("embedded_pairing_bls12_381_g1affine_t", "embedded_pairing::bls12_381::G1Affine")
    ∧ r.size = 112 ∧ r.offsets = [("x", 0), ("y", 48), ("infinity", 96)] := by decide
/-- the private member of `AffinePair` is in the table -/
example : ∃ r ∈ cpp_cfg64, ("_r", 16) ∈ r.offsets ∧ ("_r", 288) ∈ r.sizes := by decide
/-- the two configurations are really different (alignment 16 vs 8) -/
example : c_cfg64 ≠ c_cfg32 := by decide
example : 10 ≤ overlays_cfg64.length := by decide
/-- a struct can be viewed as two C++ types: `bigint_256_t` as `BigInt<256>` and as `Fr` -/
example : (pairing.filter (fun p => p.1 == "embedded_pairing_core_bigint_256_t")).length = 2 := by decide

end Jedi.C19
