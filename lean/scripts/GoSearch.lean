/- Search for a concrete failing input of the Go memory models: for every modelled function and a family of small
environments that satisfy `Valid` and the function's precondition, evaluate the event list and print the first event
that is out of bounds.  Run: `lake env lean --run scripts/GoSearch.lean [trials]`.  Output: one line per failing
function `FAIL <fn> trial=<t> event=<repr> env=<key=value …>`; exit code 1 if any. -/
import JediVerif.Gen.GoBindings
open Jedi.Go Jedi.Gen.Go

def showKey (k : Key) : String := k.1 ++ "(" ++ ", ".intercalate k.2 ++ ")"

def capOf (a : Arg) (fld : String) : Int := (a.caps.lookup fld).getD 0

/-- slot arrays (the `…_slots` theorems of Properties/GoBindings.lean): capacity the C function needs behind a pointer member,
given the preceding `set_length` call of the same trace; returns (what, needed, available) when too small -/
def slotShort (E : Env) (lastSet : Option (String × List Arg)) : Ev → Option (String × Int × Int)
  | .ccall fn a =>
    let chk (what : String) (need cap : Int) : Option (String × Int × Int) := if cap < need then some (what, need, cap) else none
    if fn == "embedded_pairing_wkdibe_params_unmarshal" || fn == "embedded_pairing_wkdibe_secretkey_unmarshal" then
      match lastSet with
      | some (sf, sa) =>
        let r := E.i ("call", sf :: sa.map (·.text))
        if fn == "embedded_pairing_wkdibe_params_unmarshal" then chk (fn ++ " h[]") (max r 0 * E.sz "embedded_pairing_bls12_381_g1_t") (capOf (arg0 a) "h")
        else chk (fn ++ " b[]") (max r 0 * E.sz "embedded_pairing_wkdibe_freeslot_t") (capOf (arg0 a) "b")
      | none => some (fn ++ " without a preceding set_length", 0, 0)
    else if fn == "embedded_pairing_wkdibe_setup" then
      chk (fn ++ " h[]") (((arg2 a).val.getD 0) * E.sz "embedded_pairing_bls12_381_g1_t") (capOf (arg0 a) "h")
    else if fn == "embedded_pairing_wkdibe_keygen" || fn == "embedded_pairing_wkdibe_qualifykey" || fn == "embedded_pairing_wkdibe_nondelegable_keygen"
        || fn == "embedded_pairing_wkdibe_nondelegable_qualifykey" then
      chk (fn ++ " b[]") ((E.i ("field", ["params.Data.l"]) - E.i ("len", ["attrs"])) * E.sz "embedded_pairing_wkdibe_freeslot_t") (capOf (arg0 a) "b")
    else none
  | _ => none

def main (args : List String) : IO UInt32 := do
  let trials := (args.head? >>= String.toNat?).getD 400
  let mut bad := 0
  for (n, f) in models do
    let mut found := false
    for t in [0:trials] do
      if found then break
      let E := trialEnv t
      if decide (Pre n E) then
        let mut lastSet : Option (String × List Arg) := none
        for e in f E do
          if let .ccall fn a := e then
            if fn == "embedded_pairing_wkdibe_params_set_length" || fn == "embedded_pairing_wkdibe_secretkey_set_length" then lastSet := some (fn, a)
          if !found then
           if let some (what, need, cap) := slotShort E lastSet e then
            found := true
            let (ik, bk, sk) := ((modelKeys.lookup n).getD ([], [], []))
            let env := " ".intercalate (ik.map (fun k => s!"{showKey k}={E.i k}") ++ bk.map (fun k => s!"{showKey k}={E.b k}") ++ sk.map (fun s => s!"sizeof({s})={E.sz s}"))
            IO.println s!"FAIL {n} trial={t} event=slot array too small for {what}: the C function fills {need} bytes, allocated {cap} env={env}"
          if !found then
           if let some (what, need, av) := bufShort E e then
            found := true
            let (ik, bk, sk) := ((modelKeys.lookup n).getD ([], [], []))
            let env := " ".intercalate (ik.map (fun k => s!"{showKey k}={E.i k}") ++ bk.map (fun k => s!"{showKey k}={E.b k}") ++ sk.map (fun s => s!"sizeof({s})={E.sz s}"))
            IO.println s!"FAIL {n} trial={t} event=buffer too short for {what}: the C function touches {need} bytes, available {av} env={env}"
          if !found && !(decide e.ok) then
            found := true
            let (ik, bk, sk) := ((modelKeys.lookup n).getD ([], [], []))
            let env := " ".intercalate (ik.map (fun k => s!"{showKey k}={E.i k}") ++ bk.map (fun k => s!"{showKey k}={E.b k}") ++ sk.map (fun s => s!"sizeof({s})={E.sz s}"))
            IO.println s!"FAIL {n} trial={t} event={repr e} env={env}"
    if found then bad := bad + 1
  IO.println s!"searched {models.length} functions x {trials} environments: {bad} with an out-of-bounds event"
  return (if bad == 0 then 0 else 1)
