/- Search for a concrete failing input of the Go memory models: for every modelled function and a family of small
environments that satisfy `Valid` and the function's precondition, evaluate the event list and print the first event
that is out of bounds.  Run: `lake env lean --run scripts/GoSearch.lean [trials]`.  Output: one line per failing
function `FAIL <fn> trial=<t> event=<repr> env=<key=value …>`; exit code 1 if any. -/
import JediVerif.Gen.GoBindings
open Jedi.Go Jedi.Gen.Go

def showKey (k : Key) : String := k.1 ++ "(" ++ ", ".intercalate k.2 ++ ")"

def main (args : List String) : IO UInt32 := do
  let trials := (args.head? >>= String.toNat?).getD 400
  let mut bad := 0
  for (n, f) in models do
    let mut found := false
    for t in [0:trials] do
      if found then break
      let E := trialEnv t
      if decide (Pre n E) then
        for e in f E do
          if !found then
           if let some (what, need, av) := bufShort E e then
            found := true
            let (ik, bk, sk) := ((modelKeys.lookup n).getD ([], [], []))
            let env := " ".intercalate (ik.map (fun k => s!"{showKey k}={E.i k}") ++ bk.map (fun k => s!"{showKey k}={E.b k}") ++ sk.map (fun s => s!"sizeof({s})={E.sz s}"))
            IO.println s!"FAIL {n} trial={t} event=buffer too short for {what}: the C function touches {need} bytes, available {av} env={env}"
          if !found && !(decide e.ok) then
            found := true
            let (ik, bk, sk) := ((modelKeys.lookup n).getD ([], [], []))
            let env := " ".intercalate (ik.map (fun k => s!"{showKey k}={E.i k}") ++ bk.map (fun k => s!"{showKey k}={E.b k}") ++ sk.map (fun s => s!"sizeof({s})={E.sz s}"))
            IO.println s!"FAIL {n} trial={t} event={repr e} env={env}"
    if found then bad := bad + 1
  IO.println s!"searched {models.length} functions x {trials} environments: {bad} with an out-of-bounds event"
  return (if bad == 0 then 0 else 1)
