import JediVerif.Spec.Basic
import JediVerif.Spec.Tower
import JediVerif.Spec.Curve
import JediVerif.Spec.Pairing
import JediVerif.Gen.Consts
