-- Root of the JediVerif library: every module, so that `lake build` checks every theorem.
import JediVerif.Spec.Basic
import JediVerif.Spec.Tower
import JediVerif.Spec.Curve
import JediVerif.Spec.Pairing
import JediVerif.Spec.Rand
import JediVerif.Impl.Types
import JediVerif.Gen.Consts
import JediVerif.Gen.TowerGen
import JediVerif.Gen.TowerThms
import JediVerif.Proofs.Attr
import JediVerif.Proofs.TowerRing
import JediVerif.Properties.C04
import JediVerif.Properties.C18
import JediVerif.Driver.Main
