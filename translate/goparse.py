#!/usr/bin/env python3
"""A parser for the subset of Go used by /repo/lang/go (cgo wrappers).  No Go toolchain exists in the
sandbox, so the translator T8 (go2lean.py) reads the source itself.  The parser is deliberately strict:
any construct it does not know raises GoSyntax, which the check reports as an undischarged obligation
(the model can then no longer be regenerated from the source) rather than guessing.

AST (nested tuples, first element a tag):
  expressions  ('id', name) ('num', text) ('str', text) ('sel', e, field) ('call', f, [args]) ('index', e, i)
               ('slice', e, lo, hi, max) ('un', op, e) ('bin', op, a, b) ('paren', e) ('funclit', params, results, body)
               ('complit', type, [(key|None, value)])   types in expression position are expressions too:
               ('arr', len|None, elem) ('map', k, v) ('ptr', t) appears as ('un','*',t)
  statements   ('define', [lhs], [rhs]) ('assign', [lhs], op, [rhs]) ('incdec', e, op) ('var', name, type|None, init|None)
               ('if', init|None, cond, then, else|None) ('for', init|None, cond|None, post|None, body)
               ('range', key|None, val|None, define, e, body) ('return', [e]) ('defer', e) ('expr', e) ('block', [stmts])
  top level    ('func', recv|None, name, params, results, body) ('vardecl', name, type|None, init) ('typedecl', name, type)
"""
import re, sys

class GoSyntax(Exception):
    pass

KEYWORDS = {'break', 'case', 'chan', 'const', 'continue', 'default', 'defer', 'else', 'fallthrough', 'for', 'func', 'go',
            'goto', 'if', 'import', 'interface', 'map', 'package', 'range', 'return', 'select', 'struct', 'switch', 'type', 'var'}
OPS = ['<<=', '>>=', '&^=', '...', '&&', '||', '<-', '++', '--', '==', '!=', '<=', '>=', ':=', '+=', '-=', '*=', '/=', '%=',
       '&=', '|=', '^=', '<<', '>>', '&^', '+', '-', '*', '/', '%', '&', '|', '^', '<', '>', '=', '!', '(', ')', '[', ']',
       '{', '}', ',', ';', '.', ':']
TOK = re.compile(r'''
    (?P<ws>[ \t\r]+) | (?P<nl>\n) | (?P<lc>//[^\n]*) | (?P<bc>/\*.*?\*/) |
    (?P<id>[A-Za-z_][A-Za-z_0-9]*) | (?P<num>0[xX][0-9a-fA-F]+|[0-9]+) |
    (?P<str>"(?:[^"\\\n]|\\.)*"|`[^`]*`) | (?P<chr>'(?:[^'\\\n]|\\.)+') |
    (?P<op>''' + '|'.join(re.escape(o) for o in OPS) + r''')
''', re.X | re.S)


def tokenize(src):
    toks, pos, line = [], 0, 1
    def last_ends_stmt():
        if not toks:
            return False
        k, v, _ = toks[-1]
        return k in ('id', 'num', 'str', 'chr') and v not in (KEYWORDS - {'break', 'continue', 'fallthrough', 'return'}) \
            or (k == 'op' and v in (')', ']', '}', '++', '--'))
    while pos < len(src):
        m = TOK.match(src, pos)
        if not m:
            raise GoSyntax(f'line {line}: cannot tokenize {src[pos:pos+20]!r}')
        k = m.lastgroup
        text = m.group()
        if k == 'nl' or (k == 'lc') or (k == 'bc' and '\n' in text):
            if k != 'lc' and last_ends_stmt():
                toks.append(('op', ';', line))
            elif k == 'lc':
                pass
        elif k in ('ws', 'bc'):
            pass
        else:
            toks.append((k, text, line))
        line += text.count('\n')
        pos = m.end()
    if last_ends_stmt():
        toks.append(('op', ';', line))
    toks.append(('eof', '', line))
    return toks


class Parser:
    def __init__(self, src, fname='<go>'):
        self.t = tokenize(src)
        self.i = 0
        self.fname = fname

    # --- helpers
    def peek(self, k=0):
        return self.t[self.i + k]

    def at(self, v):
        return self.t[self.i][1] == v and self.t[self.i][0] in ('op', 'id')

    def err(self, msg):
        k, v, l = self.peek()
        raise GoSyntax(f'{self.fname}:{l}: {msg} (at {v!r})')

    def eat(self, v):
        if not self.at(v):
            self.err(f'expected {v!r}')
        self.i += 1

    def accept(self, v):
        if self.at(v):
            self.i += 1
            return True
        return False

    def ident(self):
        k, v, _ = self.peek()
        if k != 'id' or v in KEYWORDS:
            self.err('expected identifier')
        self.i += 1
        return v

    def skip_semis(self):
        while self.accept(';'):
            pass

    # --- file
    def file(self):
        decls = []
        self.skip_semis()
        self.eat('package'); pkg = self.ident(); self.skip_semis()
        while self.at('import'):
            self.i += 1
            if self.accept('('):
                while not self.at(')'):
                    if self.peek()[0] == 'id':
                        self.i += 1
                    if self.peek()[0] != 'str':
                        self.err('import path')
                    self.i += 1
                    self.skip_semis()
                self.eat(')')
            else:
                if self.peek()[0] == 'id':
                    self.i += 1
                if self.peek()[0] != 'str':
                    self.err('import path')
                self.i += 1
            self.skip_semis()
        while self.peek()[0] != 'eof':
            if self.at('func'):
                decls.append(self.funcdecl())
            elif self.at('var'):
                self.i += 1
                if self.accept('('):
                    self.skip_semis()
                    while not self.at(')'):
                        decls.append(self.varspec())
                        self.skip_semis()
                    self.eat(')')
                else:
                    decls.append(self.varspec())
            elif self.at('type'):
                self.i += 1
                name = self.ident()
                decls.append(('typedecl', name, self.type_()))
            else:
                self.err('unsupported top-level declaration')
            self.skip_semis()
        return pkg, decls

    def varspec(self):
        name = self.ident()
        ty = None
        if not self.at('='):
            ty = self.type_()
        init = None
        if self.accept('='):
            init = self.expr()
        return ('vardecl', name, ty, init)

    def funcdecl(self):
        self.eat('func')
        recv = None
        if self.at('('):
            ps = self.params()
            if len(ps) != 1:
                self.err('receiver')
            recv = ps[0]
        name = self.ident()
        params = self.params()
        results = self.results()
        body = self.block()
        return ('func', recv, name, params, results, body)

    def params(self):
        self.eat('(')
        out = []
        while not self.at(')'):
            # name type | type
            if self.peek()[0] == 'id' and self.peek()[1] not in KEYWORDS and not (self.peek(1)[1] in (',', ')', '.')):
                names = [self.ident()]
                ty = self.type_()
                out.append((names[0], ty))
            elif self.peek()[0] == 'id' and self.peek(1)[1] == ',' and False:
                pass
            else:
                out.append((None, self.type_()))
            if not self.accept(','):
                break
        self.eat(')')
        return out

    def results(self):
        if self.at('{'):
            return []
        if self.at('('):
            return [t for _, t in self.params()]
        return [self.type_()]

    # --- types (as expressions)
    def type_(self):
        if self.accept('*'):
            return ('un', '*', self.type_())
        if self.accept('['):
            if self.accept(']'):
                return ('arr', None, self.type_())
            n = self.expr()
            self.eat(']')
            return ('arr', n, self.type_())
        if self.accept('map'):
            self.eat('['); k = self.type_(); self.eat(']')
            return ('map', k, self.type_())
        if self.accept('struct'):
            self.eat('{'); self.skip_semis()
            fields = []
            while not self.at('}'):
                if self.peek()[0] == 'id' and self.peek(1)[1] not in (';', '.'):
                    n = self.ident(); fields.append((n, self.type_()))
                else:
                    fields.append((None, self.type_()))
                self.skip_semis()
            self.eat('}')
            return ('struct', fields)
        if self.at('func'):
            self.i += 1
            ps = self.params(); rs = self.results()
            return ('functype', ps, rs)
        if self.accept('('):
            t = self.type_(); self.eat(')')
            return ('paren', t)
        n = self.ident()
        e = ('id', n)
        while self.at('.'):
            self.i += 1
            e = ('sel', e, self.ident())
        return e

    # --- statements
    def block(self):
        self.eat('{')
        out = []
        self.skip_semis()
        while not self.at('}'):
            out.append(self.stmt())
            self.skip_semis()
        self.eat('}')
        return ('block', out)

    def simple(self, nolit=False):
        lhs = [self.expr(nolit)]
        while self.accept(','):
            lhs.append(self.expr(nolit))
        if self.accept(':='):
            if self.at('range'):
                self.i += 1
                return ('rangehdr', lhs, True, self.expr(nolit))
            rhs = [self.expr(nolit)]
            while self.accept(','):
                rhs.append(self.expr(nolit))
            return ('define', lhs, rhs)
        for op in ('=', '+=', '-=', '*=', '/=', '%=', '&=', '|=', '^=', '<<=', '>>='):
            if self.at(op):
                self.i += 1
                if op == '=' and self.at('range'):
                    self.i += 1
                    return ('rangehdr', lhs, False, self.expr(nolit))
                rhs = [self.expr(nolit)]
                while self.accept(','):
                    rhs.append(self.expr(nolit))
                return ('assign', lhs, op, rhs)
        if self.at('++') or self.at('--'):
            op = self.peek()[1]; self.i += 1
            if len(lhs) != 1:
                self.err('inc/dec')
            return ('incdec', lhs[0], op)
        if len(lhs) != 1:
            self.err('expression list as statement')
        return ('expr', lhs[0])

    def stmt(self):
        if self.at('{'):
            return self.block()
        if self.at('var'):
            self.i += 1
            name = self.ident()
            ty = None
            if not self.at('='):
                ty = self.type_()
            init = self.expr() if self.accept('=') else None
            return ('var', name, ty, init)
        if self.at('return'):
            self.i += 1
            es = []
            if not self.at(';') and not self.at('}'):
                es.append(self.expr())
                while self.accept(','):
                    es.append(self.expr())
            return ('return', es)
        if self.at('defer'):
            self.i += 1
            return ('defer', self.expr())
        if self.at('if'):
            return self.ifstmt()
        if self.at('for'):
            return self.forstmt()
        for kw in ('switch', 'select', 'go', 'goto', 'break', 'continue', 'fallthrough', 'const', 'type'):
            if self.at(kw):
                self.err(f'unsupported statement {kw}')
        return self.simple()

    def ifstmt(self):
        self.eat('if')
        init = None
        s = self.simple(nolit=True)
        if self.accept(';'):
            init = s
            s = self.simple(nolit=True)
        if s[0] != 'expr':
            self.err('if condition')
        then = self.block()
        els = None
        if self.accept('else'):
            els = self.ifstmt() if self.at('if') else self.block()
        return ('if', init, s[1], then, els)

    def forstmt(self):
        self.eat('for')
        if self.at('{'):
            return ('for', None, None, None, self.block())
        if self.at('range'):
            self.i += 1
            e = self.expr(True)
            return ('range', None, None, False, e, self.block())
        s = self.simple(nolit=True)
        if s[0] == 'rangehdr':
            _, lhs, define, e = s
            if len(lhs) > 2:
                self.err('range with more than two variables')
            key = lhs[0]; val = lhs[1] if len(lhs) == 2 else None
            return ('range', key, val, define, e, self.block())
        if self.at('{'):
            if s[0] != 'expr':
                self.err('for condition')
            return ('for', None, s[1], None, self.block())
        self.eat(';')
        cond = None
        if not self.at(';'):
            c = self.simple(nolit=True)
            if c[0] != 'expr':
                self.err('for condition')
            cond = c[1]
        self.eat(';')
        post = None if self.at('{') else self.simple(nolit=True)
        return ('for', s, cond, post, self.block())

    # --- expressions
    PREC = [['||'], ['&&'], ['==', '!=', '<', '<=', '>', '>='], ['+', '-', '|', '^'], ['*', '/', '%', '<<', '>>', '&', '&^']]

    def expr(self, nolit=False, level=0):
        if level == len(self.PREC):
            return self.unary(nolit)
        a = self.expr(nolit, level + 1)
        while self.peek()[0] == 'op' and self.peek()[1] in self.PREC[level]:
            op = self.peek()[1]; self.i += 1
            b = self.expr(nolit, level + 1)
            a = ('bin', op, a, b)
        return a

    def unary(self, nolit):
        for op in ('&', '*', '!', '-', '+', '^', '<-'):
            if self.at(op) and self.peek()[0] == 'op':
                self.i += 1
                return ('un', op, self.unary(nolit))
        return self.primary(nolit)

    def primary(self, nolit):
        k, v, _ = self.peek()
        if k == 'num':
            self.i += 1; e = ('num', v)
        elif k == 'str' or k == 'chr':
            self.i += 1; e = ('str', v)
        elif self.at('('):
            self.i += 1
            # parenthesised expression or type
            inner = self.expr()
            self.eat(')')
            e = ('paren', inner)
        elif self.at('['):
            e = self.type_()
        elif self.at('map'):
            e = self.type_()
        elif self.at('func'):
            self.i += 1
            ps = self.params(); rs = self.results()
            body = self.block()
            e = ('funclit', ps, rs, body)
        elif k == 'id' and v not in KEYWORDS:
            self.i += 1; e = ('id', v)
        else:
            self.err('expression')
        while True:
            if self.at('.'):
                self.i += 1
                e = ('sel', e, self.ident())
            elif self.at('('):
                self.i += 1
                args = []
                while not self.at(')'):
                    # a type may appear as an argument (make([]byte, n), new(T))
                    args.append(self.expr())
                    if not self.accept(','):
                        break
                self.eat(')')
                e = ('call', e, args)
            elif self.at('['):
                self.i += 1
                lo = hi = mx = None
                if self.at(':'):
                    self.i += 1
                    if not self.at(']') and not self.at(':'):
                        hi = self.expr()
                    if self.accept(':'):
                        mx = self.expr()
                    self.eat(']')
                    e = ('slice', e, lo, hi, mx)
                else:
                    lo = self.expr()
                    if self.accept(':'):
                        if not self.at(']') and not self.at(':'):
                            hi = self.expr()
                        if self.accept(':'):
                            mx = self.expr()
                        self.eat(']')
                        e = ('slice', e, lo, hi, mx)
                    else:
                        self.eat(']')
                        e = ('index', e, lo)
            elif self.at('{') and not nolit and e[0] in ('id', 'sel', 'arr', 'map'):
                self.i += 1
                self.skip_semis()
                elts = []
                while not self.at('}'):
                    x = self.expr()
                    if self.accept(':'):
                        elts.append((x, self.expr()))
                    else:
                        elts.append((None, x))
                    if not self.accept(','):
                        self.skip_semis()
                        break
                    self.skip_semis()
                self.eat('}')
                e = ('complit', e, elts)
            else:
                return e


def sexp(n):
    """canonical text of an AST (comments, spacing and line breaks of the source are gone)"""
    if n is None:
        return '_'
    if isinstance(n, bool):
        return 'T' if n else 'F'
    if isinstance(n, str):
        return n
    if isinstance(n, (tuple, list)):
        return '(' + ' '.join(sexp(x) for x in n) + ')'
    raise TypeError(n)


def parse_file(path):
    src = open(path, encoding='utf-8').read()
    return Parser(src, path).file()


if __name__ == '__main__':
    for p in sys.argv[1:]:
        pkg, decls = parse_file(p)
        print(p, pkg, len(decls))
        for d in decls:
            if d[0] == 'func':
                print('  func', sexp(d[1]) if d[1] else '-', d[2], len(d[5][1]), 'stmts')
            else:
                print('  ', d[0], d[1])
