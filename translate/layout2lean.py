#!/usr/bin/env python3
"""T4: layout tables for the C interface and the C++ types it is reinterpret_cast to.

usage: layout2lean.py [repo] [outfile]
       (defaults: /repo, <verif>/lean/JediVerif/Gen/Layout.lean)

Everything is measured from the CURRENT working tree of the repository on every run; nothing is
cached.  The file is rewritten only if its content changes.

What is measured, per configuration
  cfg64  default flags                      (64-bit words, `unsigned __int128` dwords)
  cfg32  -U__SIZEOF_INT128__ (+ -DDISABLE_ASM on the C++ side)     (32-bit words, 64-bit dwords)
  cfg64p -DDISABLE_ASM on both sides                              (64-bit words, portable C++: the third supported build)

 * C side (gcc -std=c11, includes only the four .h files): for every `typedef struct {..} name;`
   found *textually* in the headers: sizeof, _Alignof, and offsetof/sizeof of every member.
 * C++ side (g++ -std=c++17 -I<repo>/include, includes only the .hpp files): the same numbers for
   the C++ partner type of every C struct.  Members are reached through pointers-to-member that are
   obtained with the explicit-instantiation rule ([temp.spec]/6: access checking is not done on
   names in explicit instantiations), so private members (AffinePair::r, PreparedPair::coeff_idx)
   are measured on the *unmodified* class definition - no `#define private public`.
 * Pairing table.  Seeds: every `reinterpret_cast<[const] T*>(param)` in the three wrapper .cpp
   files where `param` is a parameter of C struct pointer type, and every
   `(const c_t*) &cxx_object` initialiser of an exported pointer variable.  The seeds are closed
   under members: if C struct S is viewed as C++ type T and member S.m has C struct type U (or U*,
   U[]), then U is viewed as the type of T.m (cv/pointer/array stripped), so (U, that type) joins
   the table.  HAND_PAIRS can add more seeds.  A C struct of the headers that ends up with no
   partner is an error.  One C struct can have several partners (bigint_256_t is viewed both as
   BigInt<256> and as Fr); each pairing is a row.
 * Overlay structs: every struct defined in, and every target of a static_/reinterpret_cast in,
   the non-wrapper sources of src/wkdibe and src/lqibe (these are the types laid over
   caller-supplied byte buffers, plus lqibe's SymmetricKeyHashBuffer), instantiated for
   compressed = true and false; measured by #including the .cpp file.
 * Exported size constants: the bytes of the `const size_t` objects in the object file compiled
   from src/bls12_381/bls12_381.cpp (the C view) against C++ expressions (SIZE_EXPRS).

The headers contain dynamic initialisers (e.g. `group_order = Fr::p_value`), so a program that
includes them must be linked with the library: for each configuration the library is compiled once
(g++ -O1, same configuration flags; the host's src/core/arch/<uname -m> for the default one) and
the probes are linked against those objects.  The overlay probes #include the marshalling .cpp
file itself (its structs have no header) and replace that file's object in the link.

Any construct the parser does not understand makes the translator exit non-zero naming it.
"""
import os, re, subprocess, sys, tempfile, shutil

HERE = os.path.dirname(os.path.abspath(__file__))
VERIF = os.path.dirname(HERE)

C_HEADERS = ["include/core/core.h", "include/bls12_381/bls12_381.h",
             "include/wkdibe/wkdibe.h", "include/lqibe/lqibe.h"]
WRAPPERS = ["src/bls12_381/bls12_381.cpp", "src/wkdibe/wkdibe.cpp", "src/lqibe/lqibe.cpp"]
OVERLAY_DIRS = ["src/wkdibe", "src/lqibe"]

CONFIGS = [
    ("cfg64", [], []),
    ("cfg32", ["-U__SIZEOF_INT128__"], ["-U__SIZEOF_INT128__", "-DDISABLE_ASM"]),
    ("cfg64p", ["-DDISABLE_ASM"], ["-DDISABLE_ASM"]),
]

# Extra seeds (C struct name, C++ type expression, `using` context); normally not needed because
# the member closure reaches every struct.
HAND_PAIRS = []

# C member -> C++ member path, where the names differ.  Key: (C struct, C++ canonical type).
MEMBER_RENAMES = {
    ("embedded_pairing_bls12_381_affine_pair_t", "embedded_pairing::bls12_381::AffinePair"): {"_r": "r"},
    ("embedded_pairing_bls12_381_prepared_pair_t", "embedded_pairing::bls12_381::PreparedPair"): {"_coeff_idx": "coeff_idx"},
    # zp_random / zp_from_hash view a bigint_256_t as an Fr, whose only member is `BigInt<256> val`
    ("embedded_pairing_core_bigint_256_t", "embedded_pairing::bls12_381::Fr"): {"dwords": "val.dwords"},
}

# Exported `extern const size_t` of the C headers -> the C++ value it must equal.
SIZE_EXPRS = {
    "embedded_pairing_bls12_381_g1_marshalled_compressed_size":
        "sizeof(embedded_pairing::bls12_381::Encoding<embedded_pairing::bls12_381::G1Affine, true>)",
    "embedded_pairing_bls12_381_g1_marshalled_uncompressed_size":
        "sizeof(embedded_pairing::bls12_381::Encoding<embedded_pairing::bls12_381::G1Affine, false>)",
    "embedded_pairing_bls12_381_g2_marshalled_compressed_size":
        "sizeof(embedded_pairing::bls12_381::Encoding<embedded_pairing::bls12_381::G2Affine, true>)",
    "embedded_pairing_bls12_381_g2_marshalled_uncompressed_size":
        "sizeof(embedded_pairing::bls12_381::Encoding<embedded_pairing::bls12_381::G2Affine, false>)",
    "embedded_pairing_bls12_381_gt_marshalled_size":
        "sizeof(embedded_pairing::bls12_381::Fq12)",
}

# The array whose length is a literal in the C header and a constant expression in C++.
COEFFS_C = ("embedded_pairing_bls12_381_g2prepared_t", "coeffs")
COEFFS_CPP = "embedded_pairing::bls12_381::G2Prepared::num_coeffs"


def die(msg):
    sys.stderr.write("layout2lean: ERROR: " + msg + "\n")
    sys.exit(1)


def read(path):
    with open(path, encoding="utf-8") as f:
        return f.read()


def strip_comments(text):
    text = re.sub(r"/\*.*?\*/", lambda m: re.sub(r"[^\n]", " ", m.group(0)), text, flags=re.S)
    text = re.sub(r"//[^\n]*", "", text)
    return text


def match_close(text, i, open_ch, close_ch):
    """text[i] == open_ch; return index of the matching close_ch."""
    assert text[i] == open_ch
    depth = 0
    for j in range(i, len(text)):
        if text[j] == open_ch:
            depth += 1
        elif text[j] == close_ch:
            depth -= 1
            if depth == 0:
                return j
    die("unbalanced %s in source text near %r" % (open_ch, text[i:i + 60]))


def split_depth0(text, sep):
    out, depth, cur = [], 0, []
    for ch in text:
        if ch in "([{<" and not (ch == "<" and sep != ","):
            depth += 1
        elif ch in ")]}>" and not (ch == ">" and sep != ","):
            depth -= 1
        if ch == sep and depth == 0:
            out.append("".join(cur))
            cur = []
        else:
            cur.append(ch)
    out.append("".join(cur))
    return out


# ------------------------------------------------------------------------------------------------
# C headers
# ------------------------------------------------------------------------------------------------

class Member:
    """label: name used in the tables; cpath: C designator; ctype: declared C type of the
    (element of the) member, or None for an anonymous struct; array: length expression or None."""
    def __init__(self, label, cpath, ctype, array, is_ptr):
        self.label, self.cpath, self.ctype, self.array, self.is_ptr = label, cpath, ctype, array, is_ptr


def parse_c_members(body, where, prefix=""):
    """Return list of Member for a C struct body."""
    members = []
    i, n = 0, len(body)
    while i < n:
        while i < n and body[i].isspace():
            i += 1
        if i >= n:
            break
        m = re.compile(r"struct\s*\{").match(body, i)
        if m:
            j = match_close(body, m.end() - 1, "{", "}")
            inner = body[m.end():j]
            m2 = re.compile(r"\s*(\w+)\s*(?:\[([^\]]*)\])?\s*;").match(body, j + 1)
            if not m2:
                die("%s: cannot parse declarator after nested struct: %r" % (where, body[j:j + 40]))
            name, arr = m2.group(1), m2.group(2)
            members.append(Member(prefix + name, prefix + name, None, arr, False))
            if arr is not None:
                members.append(Member(prefix + name + "[0]", prefix + name + "[0]", None, None, False))
                members += parse_c_members(inner, where, prefix + name + "[0].")
            else:
                members += parse_c_members(inner, where, prefix + name + ".")
            i = m2.end()
            continue
        j = body.find(";", i)
        if j < 0:
            die("%s: trailing text in struct body: %r" % (where, body[i:]))
        decl = body[i:j].strip()
        i = j + 1
        m = re.fullmatch(r"((?:const\s+)?(?:unsigned\s+|signed\s+)?\w+)\s*(\*?)\s*(\w+)\s*(?:\[(.*)\])?", decl, flags=re.S)
        if not m:
            die("%s: cannot parse member declaration %r" % (where, decl))
        ctype, star, name, arr = m.group(1), m.group(2), m.group(3), m.group(4)
        members.append(Member(prefix + name, prefix + name, ctype, arr, star == "*"))
        if arr is not None:
            members.append(Member(prefix + name + "[0]", prefix + name + "[0]", ctype, None, star == "*"))
    return members


def parse_c_headers(repo):
    structs = []      # (name, [Member], header)
    aliases = {}      # typedef name -> name
    size_consts = []  # extern const size_t names
    for h in C_HEADERS:
        text = strip_comments(read(os.path.join(repo, h)))
        pos = 0
        for m in re.finditer(r"\btypedef\b", text):
            if m.start() < pos:
                continue
            rest = text[m.end():]
            ms = re.match(r"\s*(struct|union|enum)\b\s*(\w*)\s*", rest)
            if ms:
                if ms.group(1) != "struct" or ms.group(2):
                    die("%s: unsupported typedef form: %r" % (h, text[m.start():m.start() + 80]))
                b = m.end() + ms.end()
                if text[b] != "{":
                    die("%s: unsupported typedef struct form: %r" % (h, text[m.start():m.start() + 80]))
                e = match_close(text, b, "{", "}")
                mn = re.compile(r"\s*(\w+)\s*;").match(text, e + 1)
                if not mn:
                    die("%s: cannot find the name of a typedef struct: %r" % (h, text[e:e + 60]))
                name = mn.group(1)
                structs.append((name, parse_c_members(text[b + 1:e], "%s: %s" % (h, name)), h))
                pos = mn.end()
            else:
                e = text.index(";", m.end())
                decl = text[m.end():e].strip()
                ma = re.fullmatch(r"((?:unsigned\s+)?\w+(?:\s+\w+)*?)\s+(\w+)", decl)
                if not ma:
                    die("%s: unsupported typedef: %r" % (h, decl))
                aliases[ma.group(2)] = ma.group(1)
                pos = e + 1
        # any other struct definition in the header that is not a typedef struct {..} name;
        n_struct_kw = len(re.findall(r"\bstruct\b", text))
        n_seen = sum(1 for (nm, mem, hh) in structs if hh == h) + \
            sum(1 for (nm, mem, hh) in structs if hh == h for x in mem if x.ctype is None and not x.label.endswith("[0]"))
        if n_struct_kw != n_seen:
            die("%s: %d `struct` keywords but %d understood struct definitions - a struct is declared in a form "
                "this translator does not handle" % (h, n_struct_kw, n_seen))
        if re.search(r"\bunion\b|\benum\b", text):
            die("%s: union/enum in a C header is not handled" % h)
        for mc in re.finditer(r"\bextern\s+const\s+size_t\s+(\w+)\s*;", text):
            size_consts.append(mc.group(1))
    names = [s[0] for s in structs]
    if len(set(names)) != len(names):
        die("duplicate C struct names in headers")
    return structs, aliases, size_consts


def resolve_alias(name, aliases, struct_names):
    seen = set()
    while name not in struct_names and name in aliases and name not in seen:
        seen.add(name)
        name = aliases[name]
    return name


# ------------------------------------------------------------------------------------------------
# wrapper .cpp files: seeds of the pairing table
# ------------------------------------------------------------------------------------------------

def parse_wrapper(repo, rel, aliases, struct_names):
    """Return (using_lines, [(c_struct, cpp_type_expr, origin)])"""
    text = strip_comments(read(os.path.join(repo, rel)))
    usings = re.findall(r"^\s*(using\s+[^;]+;)", text, flags=re.M)
    seeds = []
    casts_seen = 0
    # function definitions
    for m in re.finditer(r"^[ \t]*(?:[\w]+[\w \t\*]*?)[ \t\*]+(embedded_pairing_\w+)\s*\(", text, flags=re.M):
        fname = m.group(1)
        p0 = m.end() - 1
        p1 = match_close(text, p0, "(", ")")
        after = re.compile(r"\s*\{").match(text, p1 + 1)
        if not after:
            continue  # a declaration or something else
        b1 = match_close(text, after.end() - 1, "{", "}")
        params = {}
        for p in split_depth0(text[p0 + 1:p1], ","):
            p = p.strip()
            mp = re.fullmatch(r"(?:const\s+)?(\w+)\s*\*\s*(\w+)", p)
            if mp:
                params[mp.group(2)] = resolve_alias(mp.group(1), aliases, struct_names)
            else:
                mq = re.search(r"(\w+)\s*$", p)
                mf = re.search(r"\(\s*\*\s*(\w+)\s*\)", p)
                if mf:
                    params[mf.group(1)] = None
                elif mq:
                    params[mq.group(1)] = None
        body = text[after.end():b1]
        for mc in re.finditer(r"reinterpret_cast\s*<", body):
            casts_seen += 1
            a0 = mc.end() - 1
            a1 = match_close(body, a0, "<", ">")
            targ = body[a0 + 1:a1].strip()
            mo = re.compile(r"\s*\(\s*(\w+)\s*\)").match(body, a1 + 1)
            if not mo:
                die("%s: %s: reinterpret_cast with an operand that is not a plain identifier: %r"
                    % (rel, fname, body[mc.start():mc.start() + 100]))
            opnd = mo.group(1)
            mt = re.fullmatch(r"(?:const\s+)?(.+?)\s*\*", targ, flags=re.S)
            if not mt:
                die("%s: %s: reinterpret_cast to a non-pointer type %r" % (rel, fname, targ))
            if opnd not in params:
                die("%s: %s: reinterpret_cast of `%s`, which is not a parameter" % (rel, fname, opnd))
            cty = params[opnd]
            if cty is None or cty not in struct_names:
                die("%s: %s: reinterpret_cast of parameter `%s` whose type is not a pointer to a C struct of the headers"
                    % (rel, fname, opnd))
            seeds.append((cty, mt.group(1).strip(), "%s:%s" % (rel, fname)))
    total = len(re.findall(r"reinterpret_cast\s*<", text))
    if total != casts_seen:
        die("%s: %d reinterpret_casts in the file but only %d inside understood function definitions" % (rel, total, casts_seen))
    # C-style casts of C++ objects to C pointer types (exported pointer variables)
    for mc in re.finditer(r"\(\s*(?:const\s+)?(embedded_pairing_\w+)\s*\*\s*\)\s*&\s*([\w:]+)", text):
        cty = resolve_alias(mc.group(1), aliases, struct_names)
        if cty not in struct_names:
            die("%s: C-style cast to %s*, not a C struct of the headers" % (rel, mc.group(1)))
        seeds.append((cty, "std::remove_cv_t<decltype(%s)>" % mc.group(2), "%s:&%s" % (rel, mc.group(2))))
    # any other C-style cast to a C struct pointer is not understood
    n_c_casts = len(re.findall(r"\(\s*(?:const\s+)?embedded_pairing_\w+\s*\*\s*\)", text))
    n_ok = len(re.findall(r"\(\s*(?:const\s+)?embedded_pairing_\w+\s*\*\s*\)\s*&\s*[\w:]+", text))
    if n_c_casts != n_ok:
        die("%s: a C-style cast to a C struct pointer has an operand that is not `&object`" % rel)
    return usings, seeds


# ------------------------------------------------------------------------------------------------
# C++ probe program
# ------------------------------------------------------------------------------------------------

CPP_PRELUDE = r'''
#include <stdint.h>
#include <stddef.h>
#include <stdio.h>
#include <stdlib.h>
#include <string.h>
#include <typeinfo>
#include <type_traits>
#include <cxxabi.h>
%(includes)s

/* Pointers to (possibly private) members, via explicit instantiation. */
template <int I> struct Slot { friend constexpr auto get_member(Slot<I>); };
template <int I, auto P> struct Rob { friend constexpr auto get_member(Slot<I>) { return P; } };
template <typename T> struct Obj {
    alignas(T) static unsigned char buf[sizeof(T)];
    static T& ref() { return *reinterpret_cast<T*>(buf); }
};
template <typename T> alignas(T) unsigned char Obj<T>::buf[sizeof(T)];
template <typename T> static const char* tname() {
    int st = 0;
    const char* s = abi::__cxa_demangle(typeid(T).name(), nullptr, nullptr, &st);
    if (st != 0 || s == nullptr) { fprintf(stderr, "demangle failed\n"); exit(3); }
    return s;
}
template <typename X> struct strip {
    typedef std::remove_cv_t<std::remove_pointer_t<std::remove_all_extents_t<std::remove_reference_t<X>>>> type;
};
#define MEM(T, I, SUF) ((Obj<T>::ref().*get_member(Slot<I>{})) SUF)
#define OFF(T, I, SUF) ((size_t)((const unsigned char*)&MEM(T, I, SUF) - Obj<T>::buf))
'''


class Probe:
    """One C++ type to measure: typedef expression in a context, and its members
    (label, cpp path, wants_nested_type)."""
    def __init__(self, key, ctx, expr, members):
        self.key, self.ctx, self.expr, self.members = key, ctx, expr, members


def gen_cpp_program(includes, contexts, probes, extra_main=""):
    """contexts: name -> (open_text, close_text, qualifier) where typedefs are placed."""
    out = [CPP_PRELUDE % {"includes": "\n".join(includes)}]
    by_ctx = {}
    for idx, p in enumerate(probes):
        by_ctx.setdefault(p.ctx, []).append((idx, p))
    for cname, (open_text, close_text, qual) in contexts.items():
        out.append(open_text)
        for idx, p in by_ctx.get(cname, []):
            out.append("    typedef %s T%d;" % (p.expr, idx))
        out.append(close_text)
    slot = 0
    main = []
    for idx, p in enumerate(probes):
        qual = contexts[p.ctx][2]
        T = "%sT%d" % (qual, idx)
        main.append('    printf("S\\t%%s\\t%%s\\t%%zu\\t%%zu\\n", "%s", tname<%s>(), sizeof(%s), alignof(%s));' % (p.key, T, T, T))
        for (label, path, nested) in p.members:
            mm = re.fullmatch(r"(\w+)(.*)", path)
            first, suf = mm.group(1), mm.group(2)
            out.append("template struct Rob<%d, &%s::%s>;" % (slot, T, first))
            main.append('    printf("M\\t%%s\\t%%s\\t%%zu\\t%%zu\\t%%s\\n", "%s", "%s", OFF(%s, %d, %s), sizeof(MEM(%s, %d, %s)), %s);'
                        % (p.key, label, T, slot, suf, T, slot, suf,
                           ("tname<strip<decltype(MEM(%s, %d, %s))>::type>()" % (T, slot, suf)) if nested else '"-"'))
            slot += 1
    out.append("int main() {")
    out += main
    out.append(extra_main)
    out.append("    return 0;\n}")
    return "\n".join(out) + "\n"


def run(cmd, what, cwd=None):
    r = subprocess.run(cmd, stdout=subprocess.PIPE, stderr=subprocess.PIPE, text=True, cwd=cwd)
    if r.returncode != 0:
        die("%s failed (%s):\n%s" % (what, " ".join(cmd), r.stderr[-4000:]))
    return r.stdout


def parse_probe_output(text):
    recs, order = {}, []
    extra = {}
    for line in text.splitlines():
        f = line.split("\t")
        if f[0] == "S":
            recs[f[1]] = {"key": f[1], "tname": f[2], "size": int(f[3]), "align": int(f[4]), "members": []}
            order.append(f[1])
        elif f[0] == "M":
            recs[f[1]]["members"].append((f[2], int(f[3]), int(f[4]), f[5] if len(f) > 5 else "-"))
        elif f[0] == "X":
            extra[f[1]] = int(f[2])
        else:
            die("unexpected probe output line %r" % line)
    return [recs[k] for k in order], extra


# ------------------------------------------------------------------------------------------------
# overlays
# ------------------------------------------------------------------------------------------------

def parse_cpp_struct_members(body, where):
    """Data members of a C++ struct body (functions, statics, typedefs skipped)."""
    # remove function bodies
    i = 0
    flat = []
    while i < len(body):
        ch = body[i]
        if ch == "{":
            j = match_close(body, i, "{", "}")
            flat.append(";")
            i = j + 1
            continue
        flat.append(ch)
        i += 1
    members = []
    for stmt in "".join(flat).split(";"):
        s = stmt.strip()
        if not s:
            continue
        s = re.sub(r"^(public|private|protected)\s*:\s*", "", s).strip()
        if not s:
            continue
        if re.match(r"(static|typedef|using|friend|template|constexpr)\b", s):
            continue
        # data member: TYPE NAME or TYPE NAME[EXPR] (tried first: EXPR may contain parentheses)
        m = re.fullmatch(r"(.+?)[\s\*&]+(\w+)\s*(\[.*\])?", s, flags=re.S)
        if m and "(" not in m.group(1) and "(" not in m.group(2):
            members.append((m.group(2), m.group(3) is not None))
            continue
        if "(" in s:          # function declaration / definition head
            continue
        die("%s: cannot parse member declaration %r" % (where, s))
    return members


def find_struct_def(text, name):
    """Return (is_template_bool_compressed, template_params, body) of `struct name {` in text or None."""
    m = re.search(r"(template\s*<([^>]*)>\s*)?\b(?:struct|union)\s+%s\s*(?::[^{;]*)?\{" % re.escape(name), text)
    if not m:
        return None
    e = match_close(text, m.end() - 1, "{", "}")
    return (m.group(2), text[m.end():e])


def collect_overlays(repo):
    """Return list of (cpp_file_rel, namespace, [type_expr_with_compressed], struct_texts)"""
    wrappers = set(WRAPPERS)
    hpp_text = ""
    for root, dirs, files in sorted(os.walk(os.path.join(repo, "include"))):
        dirs.sort()
        if os.sep + "arch" in root:
            continue
        for f in sorted(files):
            if f.endswith(".hpp"):
                hpp_text += strip_comments(read(os.path.join(root, f))) + "\n"
    result = []
    for d in OVERLAY_DIRS:
        for f in sorted(os.listdir(os.path.join(repo, d))):
            rel = d + "/" + f
            if not f.endswith(".cpp") or rel in wrappers:
                continue
            text = strip_comments(read(os.path.join(repo, rel)))
            types = []   # type expressions (may mention `compressed`)
            defs = {}
            for m in re.finditer(r"(template\s*<([^>]*)>\s*)?\b(struct|union|class)\s+(\w+)\s*(?::[^{;]*)?\{", text):
                tp, name = m.group(2), m.group(4)
                if m.group(3) != "struct":
                    die("%s: %s %s defined in a source file: not handled" % (rel, m.group(3), name))
                if tp is None:
                    expr = name
                elif re.fullmatch(r"\s*bool\s+compressed\s*", tp):
                    expr = name + "<compressed>"
                else:
                    die("%s: struct %s has template parameters <%s>; only <bool compressed> is handled" % (rel, name, tp))
                e = match_close(text, m.end() - 1, "{", "}")
                defs[name] = text[m.end():e]
                if expr not in types:
                    types.append(expr)
            for m in re.finditer(r"\b(static_cast|reinterpret_cast)\s*<", text):
                a0 = m.end() - 1
                a1 = match_close(text, a0, "<", ">")
                targ = " ".join(text[a0 + 1:a1].split())
                mt = re.fullmatch(r"(?:const\s+)?(.+?)\s*\*", targ)
                if not mt:
                    continue      # value casts (integers) are not overlays
                expr = mt.group(1).strip()
                if expr in ("uint8_t", "unsigned char", "char", "void"):
                    continue      # byte pointers: alignment 1 by definition
                expr = re.sub(r"\s*,\s*", ", ", expr)
                if expr not in types:
                    types.append(expr)
            if not types:
                continue
            ns = re.findall(r"^\s*namespace\s+([\w:]+)\s*\{", text, flags=re.M)
            if len(ns) != 1:
                die("%s: expected exactly one namespace block, found %r" % (rel, ns))
            # member lists
            tinfo = []
            for expr in types:
                base = re.match(r"(?:\w+::)*(\w+)", expr).group(1)
                if base in defs:
                    body = defs[base]
                else:
                    sd = find_struct_def(hpp_text, base)
                    if sd is None:
                        die("%s: cast to %s* but no definition of struct %s found in the file or in include/**/*.hpp" % (rel, expr, base))
                    body = sd[1]
                mem = parse_cpp_struct_members(body, "%s: struct %s" % (rel, base))
                if not mem:
                    die("%s: struct %s has no data members that could be parsed" % (rel, base))
                if re.search(r"\bcompressed\b", expr):
                    insts = [(re.sub(r"\bcompressed\b", "true", expr)), (re.sub(r"\bcompressed\b", "false", expr))]
                else:
                    insts = [expr]
                for inst in insts:
                    tinfo.append((inst, mem))
            result.append((rel, ns[0], tinfo))
    return result


# ------------------------------------------------------------------------------------------------
# object-file constants
# ------------------------------------------------------------------------------------------------

def read_object_constants(obj, names):
    """Values of the named size_t objects stored in obj (little-endian), via readelf + objdump."""
    secs = {}
    for line in run(["readelf", "-SW", obj], "readelf -S").splitlines():
        m = re.match(r"\s*\[\s*(\d+)\]\s+(\S+)\s+(\S+)\s+([0-9a-f]+)\s+([0-9a-f]+)\s+([0-9a-f]+)", line)
        if m:
            secs[int(m.group(1))] = m.group(2)
    syms = {}
    for line in run(["readelf", "-sW", obj], "readelf -s").splitlines():
        f = line.split()
        if len(f) == 8 and f[7] in names:
            if not f[6].isdigit():
                die("exported constant %s is not defined in %s (Ndx %s)" % (f[7], obj, f[6]))
            syms[f[7]] = (int(f[1], 16), int(f[2]), int(f[6]))
    vals = {}
    dumps = {}
    for nm in names:
        if nm not in syms:
            die("exported constant %s has no symbol in the object compiled from bls12_381.cpp" % nm)
        addr, size, ndx = syms[nm]
        sec = secs[ndx]
        if sec.startswith(".bss"):
            die("exported constant %s lives in %s (no initialiser bytes)" % (nm, sec))
        if ndx not in dumps:
            data = {}
            for line in run(["objdump", "-s", "-j", sec, obj], "objdump -s").splitlines():
                m = re.match(r"\s([0-9a-f]+)\s((?:[0-9a-f]+\s)+)", line)
                if m:
                    base = int(m.group(1), 16)
                    hx = "".join(m.group(2).split())
                    for k in range(0, len(hx), 2):
                        data[base + k // 2] = int(hx[k:k + 2], 16)
            dumps[ndx] = data
        data = dumps[ndx]
        try:
            vals[nm] = sum(data[addr + k] << (8 * k) for k in range(size))
        except KeyError:
            die("cannot read the bytes of %s from section %s" % (nm, sec))
    return vals


# ------------------------------------------------------------------------------------------------
# the library itself (needed to link the probes: the headers contain dynamic initialisers)
# ------------------------------------------------------------------------------------------------

def build_library(repo, tmp, flags, tag):
    """Compile every library source with `flags`; return {relative source: object}."""
    from concurrent.futures import ThreadPoolExecutor
    srcs = []
    for d in ["src/core", "src/bls12_381", "src/wkdibe", "src/lqibe"]:
        full = os.path.join(repo, d)
        if os.path.isdir(full):
            srcs += [d + "/" + f for f in sorted(os.listdir(full)) if f.endswith(".cpp")]
    if "-DDISABLE_ASM" not in flags:
        arch = "src/core/arch/" + os.uname().machine
        if not os.path.isdir(os.path.join(repo, arch)):
            die("no assembly directory %s for this host; cannot build the default configuration" % arch)
        srcs += [arch + "/" + f for f in sorted(os.listdir(os.path.join(repo, arch))) if f.endswith((".cpp", ".s"))]
    objs = {}
    jobs = []
    for rel in srcs:
        obj = os.path.join(tmp, "lib_%s_%s.o" % (tag, re.sub(r"[^A-Za-z0-9]", "_", rel)))
        objs[rel] = obj
        if rel.endswith(".s"):
            jobs.append((["as", os.path.join(repo, rel), "-o", obj], "assembling %s (%s)" % (rel, tag)))
        else:
            jobs.append((["g++", "-std=c++17", "-I" + os.path.join(repo, "include"), "-O1"] + flags +
                         ["-c", os.path.join(repo, rel), "-o", obj], "compiling %s (%s)" % (rel, tag)))
    with ThreadPoolExecutor(max_workers=os.cpu_count() or 4) as ex:
        results = list(ex.map(lambda j: subprocess.run(j[0], stdout=subprocess.PIPE, stderr=subprocess.PIPE, text=True), jobs))
    for (cmd, what), r in zip(jobs, results):
        if r.returncode != 0:
            die("%s failed (%s):\n%s" % (what, " ".join(cmd), r.stderr[-4000:]))
    return objs


# ------------------------------------------------------------------------------------------------
# Lean output
# ------------------------------------------------------------------------------------------------

def lstr(s):
    return '"' + s.replace("\\", "\\\\").replace('"', '\\"') + '"'


def lean_pairs(pairs):
    return "[" + ", ".join("(%s, %d)" % (lstr(a), b) for a, b in pairs) + "]"


def lean_rec(name, size, align, offsets, sizes):
    return "  { name := %s, size := %d, align := %d,\n    offsets := %s,\n    sizes := %s }" % (
        lstr(name), size, align, lean_pairs(offsets), lean_pairs(sizes))


def lean_rec_list(defname, doc, recs):
    s = "/-- %s -/\ndef %s : List Rec := [\n" % (doc, defname)
    s += ",\n".join(lean_rec(*r) for r in recs)
    s += "\n]\n"
    return s


# ------------------------------------------------------------------------------------------------

def main():
    repo = os.path.abspath(sys.argv[1]) if len(sys.argv) > 1 else "/repo"
    outfile = sys.argv[2] if len(sys.argv) > 2 else os.path.join(VERIF, "lean", "JediVerif", "Gen", "Layout.lean")
    tmp = tempfile.mkdtemp(prefix="layout2lean_")
    try:
        text = build(repo, tmp)
    finally:
        shutil.rmtree(tmp, ignore_errors=True)
    old = None
    if os.path.exists(outfile):
        old = read(outfile)
    if old != text:
        os.makedirs(os.path.dirname(os.path.abspath(outfile)), exist_ok=True)
        with open(outfile + ".tmp", "w", encoding="utf-8") as f:
            f.write(text)
        os.replace(outfile + ".tmp", outfile)
        print("layout2lean: wrote %s" % outfile)
    else:
        print("layout2lean: %s unchanged" % outfile)


def build(repo, tmp):
    inc = os.path.join(repo, "include")
    structs, aliases, size_consts = parse_c_headers(repo)
    struct_names = [s[0] for s in structs]
    sset = set(struct_names)
    members_of = {s[0]: s[1] for s in structs}

    for nm in size_consts:
        if nm not in SIZE_EXPRS:
            die("exported constant %s of the C headers has no C++ expression in SIZE_EXPRS" % nm)
    for nm in SIZE_EXPRS:
        if nm not in size_consts:
            die("SIZE_EXPRS mentions %s, which the C headers no longer declare" % nm)

    # coeffs length literal of the C header
    cm = [x for x in members_of.get(COEFFS_C[0], []) if x.label == COEFFS_C[1]]
    if not cm or cm[0].array is None or not re.fullmatch(r"\s*\d+\s*", cm[0].array):
        die("%s.%s is not an array with a literal length in the C header" % COEFFS_C)
    coeffs_len_c = int(cm[0].array)

    # ---- seeds
    contexts = {}
    seeds = []      # (cstruct, ctxname, expr, origin)
    for k, rel in enumerate(WRAPPERS):
        usings, sd = parse_wrapper(repo, rel, aliases, sset)
        cname = "w%d" % k
        contexts[cname] = ("namespace probe_%s {\n    %s" % (cname, "\n    ".join(usings)), "}", "probe_%s::" % cname)
        for (cty, expr, origin) in sd:
            if (cty, cname, expr) not in [(a, b, c) for (a, b, c, d) in seeds]:
                seeds.append((cty, cname, expr, origin))
    contexts["g"] = ("namespace probe_g {", "}", "probe_g::")
    for (cty, expr) in HAND_PAIRS:
        if cty not in sset:
            die("HAND_PAIRS mentions %s, which is not a struct of the C headers" % cty)
        seeds.append((cty, "g", expr, "HAND_PAIRS"))

    hpp_includes = []
    for rel in WRAPPERS:
        for m in re.finditer(r'^\s*#include\s+"([^"]+\.hpp)"', read(os.path.join(repo, rel)), flags=re.M):
            inc_line = '#include "%s"' % m.group(1)
            if inc_line not in hpp_includes:
                hpp_includes.append(inc_line)

    def member_path(cty, canon, label):
        ren = MEMBER_RENAMES.get((cty, canon), {})
        # rename the first component (or the whole label) if listed
        first = re.match(r"\w+", label).group(0)
        if label in ren:
            return ren[label]
        if first in ren:
            return ren[first] + label[len(first):]
        return label

    def nested_ctype(cty, label):
        """C struct type of member `label` of cty (through aliases), or None"""
        for x in members_of[cty]:
            if x.label == label and x.ctype is not None:
                t = resolve_alias(re.sub(r"^const\s+", "", x.ctype), aliases, sset)
                return t if t in sset else None
        return None

    def measure_cpp(pairs, canon_of, flags, tag, lib):
        """pairs: list of (cstruct, ctx, expr). canon_of: dict (cstruct,ctx,expr)->canonical or None"""
        probes = []
        for i, (cty, ctx, expr) in enumerate(pairs):
            canon = canon_of.get((cty, ctx, expr))
            mem = []
            for x in members_of[cty]:
                path = member_path(cty, canon, x.label) if canon else x.label
                mem.append((x.label, path, nested_ctype(cty, x.label) is not None))
            probes.append(Probe("%d" % i, ctx, expr, mem))
        extra = '    printf("X\\tnum_coeffs\\t%%zu\\n", (size_t) %s);\n' % COEFFS_CPP
        extra += '    printf("X\\tword\\t%zu\\n", sizeof(embedded_pairing::core::BigInt<256>::word_t));\n'
        extra += '    printf("X\\tdword\\t%zu\\n", sizeof(embedded_pairing::core::BigInt<256>::dword_t));\n'
        for nm in size_consts:
            extra += '    printf("X\\t%s\\t%%zu\\n", (size_t) (%s));\n' % (nm, SIZE_EXPRS[nm])
        src = gen_cpp_program(hpp_includes, contexts, probes, extra)
        sp = os.path.join(tmp, "cpp_%s.cpp" % tag)
        with open(sp, "w") as f:
            f.write(src)
        exe = os.path.join(tmp, "cpp_%s" % tag)
        run(["g++", "-std=c++17", "-I" + inc, "-Wno-non-template-friend"] + flags + [sp] + sorted(lib.values()) + ["-o", exe],
            "compiling the C++ layout probe (%s)" % tag)
        return parse_probe_output(run([exe], "running the C++ layout probe (%s)" % tag))

    # ---- stage 1: canonical names of the seeds (members not yet needed: renames depend on canon)
    def canon_names(triples, flags, tag, lib):
        probes = [Probe("%d" % i, ctx, expr, []) for i, (cty, ctx, expr) in enumerate(triples)]
        src = gen_cpp_program(hpp_includes, contexts, probes, "")
        sp = os.path.join(tmp, "canon_%s.cpp" % tag)
        with open(sp, "w") as f:
            f.write(src)
        exe = os.path.join(tmp, "canon_%s" % tag)
        run(["g++", "-std=c++17", "-I" + inc, "-Wno-non-template-friend"] + flags + [sp] + sorted(lib.values()) + ["-o", exe],
            "compiling the C++ type-name probe (%s); a C++ partner type could not be named" % tag)
        recs, _ = parse_probe_output(run([exe], "running the type-name probe"))
        return [r["tname"] for r in recs]

    cfg64_cpp_flags = CONFIGS[0][2]
    libs = {cfg: build_library(repo, tmp, cppflags, cfg) for (cfg, cflags, cppflags) in CONFIGS}
    lib64 = libs[CONFIGS[0][0]]
    triples = [(a, b, c) for (a, b, c, d) in seeds]
    names = canon_names(triples, cfg64_cpp_flags, "seeds", lib64)
    pairs = []           # (cstruct, canonical C++ name), deduplicated
    origin = {}
    for (cty, ctx, expr, org), cn in zip(seeds, names):
        if (cty, cn) not in pairs:
            pairs.append((cty, cn))
            origin[(cty, cn)] = org

    # ---- closure under members (canonical names are valid global type expressions)
    rounds = 0
    while True:
        rounds += 1
        if rounds > 12:
            die("member closure of the pairing table did not converge")
        tr = [(cty, "g", cn) for (cty, cn) in pairs]
        co = {(cty, "g", cn): cn for (cty, cn) in pairs}
        recs, _ = measure_cpp(tr, co, cfg64_cpp_flags, "closure%d" % rounds, lib64)
        new = []
        for (cty, cn), r in zip(pairs, recs):
            if r["tname"] != cn:
                die("canonical name %s does not name itself (%s)" % (cn, r["tname"]))
            for (label, off, sz, nt) in r["members"]:
                u = nested_ctype(cty, label)
                if u is not None:
                    if nt == "-":
                        die("internal: no nested type for %s.%s" % (cty, label))
                    if (u, nt) not in pairs and (u, nt) not in new:
                        new.append((u, nt))
                        origin[(u, nt)] = "member %s.%s" % (cty, label)
        if not new:
            break
        pairs += new

    missing = [s for s in struct_names if s not in [p[0] for p in pairs]]
    if missing:
        die("C struct(s) of the headers without a C++ partner (add a reinterpret_cast in a wrapper or a HAND_PAIRS entry): "
            + ", ".join(missing))
    # order: header order of the C struct, then C++ name
    pairs.sort(key=lambda p: (struct_names.index(p[0]), p[1]))

    def row_name(cty, cn):
        return "%s = %s" % (cty, cn)

    # ---- C side
    def measure_c(flags, tag):
        lines = ['#include <stdio.h>', '#include <stddef.h>']
        for h in C_HEADERS:
            lines.append('#include "%s"' % h[len("include/"):])
        lines.append("int main(void) {")
        for (name, mem, h) in structs:
            lines.append('    printf("S\\t%s\\t%s\\t%%zu\\t%%zu\\n", sizeof(%s), _Alignof(%s));' % (name, name, name, name))
            for x in mem:
                lines.append('    printf("M\\t%s\\t%s\\t%%zu\\t%%zu\\t-\\n", offsetof(%s, %s), sizeof(((%s*)0)->%s));'
                             % (name, x.label, name, x.cpath, name, x.cpath))
        lines.append('    printf("X\\tword\\t%zu\\n", sizeof(embedded_pairing_core_bigint_word_t));')
        lines.append('    printf("X\\tdword\\t%zu\\n", sizeof(embedded_pairing_core_bigint_dword_t));')
        lines.append("    return 0;\n}")
        sp = os.path.join(tmp, "c_%s.c" % tag)
        with open(sp, "w") as f:
            f.write("\n".join(lines) + "\n")
        exe = os.path.join(tmp, "c_%s" % tag)
        run(["gcc", "-std=c11", "-I" + inc] + flags + [sp, "-o", exe], "compiling the C layout probe (%s)" % tag)
        recs, extra = parse_probe_output(run([exe], "running the C layout probe"))
        return {r["key"]: r for r in recs}, extra

    # ---- overlays
    overlays = collect_overlays(repo)

    def measure_overlays(flags, tag, lib):
        allrecs = []
        for k, (rel, ns, tinfo) in enumerate(overlays):
            ctx = {"o": ("namespace %s { namespace layout_probe {" % ns, "} }", "%s::layout_probe::" % ns)}
            probes = []
            for i, (expr, mem) in enumerate(tinfo):
                pm = []
                for (m, isarr) in mem:
                    pm.append((m, m, False))
                    if isarr:
                        pm.append((m + "[0]", m + "[0]", False))
                probes.append(Probe("%d" % i, "o", expr, pm))
            src = gen_cpp_program(['#include "%s"' % os.path.join(repo, rel)], ctx, probes, "")
            sp = os.path.join(tmp, "ov_%s_%d.cpp" % (tag, k))
            with open(sp, "w") as f:
                f.write(src)
            exe = os.path.join(tmp, "ov_%s_%d" % (tag, k))
            # the probe #includes the .cpp, so it replaces that file's object in the link
            others = sorted(o for (r, o) in lib.items() if r != rel)
            run(["g++", "-std=c++17", "-I" + inc, "-Wno-non-template-friend"] + flags + [sp] + others + ["-o", exe],
                "compiling the overlay probe for %s (%s)" % (rel, tag))
            recs, _ = parse_probe_output(run([exe], "running the overlay probe for %s" % rel))
            for r in recs:
                r["file"] = rel
            allrecs += recs
        # deduplicate by canonical type name (Encoding<..> is cast to in several files)
        seen, out = {}, []
        for r in allrecs:
            key = r["tname"]
            cur = (r["size"], r["align"], r["members"])
            if key in seen:
                if seen[key] != cur:
                    die("overlay type %s measured differently in two files" % key)
                continue
            seen[key] = cur
            out.append(r)
        out.sort(key=lambda r: r["tname"])
        return out

    # ---- object constants (C view of the exported sizes)
    def measure_consts(flags, tag):
        obj = libs[tag]["src/bls12_381/bls12_381.cpp"]
        return read_object_constants(obj, size_consts)

    # ---- assemble
    out = []
    out.append("/- GENERATED by translate/layout2lean.py from the repository's working tree; do not edit. -/")
    out.append("namespace Jedi.Gen.Layout\n")
    out.append("/-- One measured type.  `offsets`/`sizes`: byte offset / size of each member, named by the C member\n"
               "(`m[0]` = first element of array member `m`; `m[0].a` = member of an anonymous element struct). -/")
    out.append("structure Rec where\n  name : String\n  size : Nat\n  align : Nat\n  offsets : List (String × Nat)\n"
               "  sizes : List (String × Nat)\n  deriving DecidableEq, Repr\n")
    out.append("/-- The C structs declared in the four C headers, in header order. -/")
    out.append("def c_structs : List String := [\n  " + ",\n  ".join(lstr(s) for s in struct_names) + "\n]\n")
    out.append("/-- (C struct, C++ type it is viewed as); rows of the layout tables, same order. -/")
    out.append("def pairing : List (String × String) := [\n  " +
               ",\n  ".join("(%s, %s)" % (lstr(a), lstr(b)) for a, b in pairs) + "\n]\n")
    out.append("/-- where each pairing was found (wrapper function / exported object / enclosing member). -/")
    out.append("def pairing_origin : List (String × String) := [\n  " +
               ",\n  ".join("(%s, %s)" % (lstr(row_name(a, b)), lstr(origin[(a, b)])) for a, b in pairs) + "\n]\n")
    out.append("/-- array length of `coeffs` in embedded_pairing_bls12_381_g2prepared_t, literal in the C header text -/")
    out.append("def coeffs_len_c : Nat := %d\n" % coeffs_len_c)

    first = True
    for (cfg, cflags, cppflags) in CONFIGS:
        crecs, cextra = measure_c(cflags, cfg)
        tr = [(cty, "g", cn) for (cty, cn) in pairs]
        co = {(cty, "g", cn): cn for (cty, cn) in pairs}
        cpprecs, xextra = measure_cpp(tr, co, cppflags, cfg, libs[cfg])
        # the closure must also be closed in this configuration
        for (cty, cn), r in zip(pairs, cpprecs):
            if r["tname"] != cn:
                die("%s: %s names %s" % (cfg, cn, r["tname"]))
            for (label, off, sz, nt) in r["members"]:
                u = nested_ctype(cty, label)
                if u is not None and (u, nt) not in pairs:
                    die("%s: member %s.%s is viewed as %s, a pairing not present in the table" % (cfg, cty, label, nt))
        c_rows, x_rows = [], []
        for (cty, cn), r in zip(pairs, cpprecs):
            c = crecs[cty]
            c_rows.append((row_name(cty, cn), c["size"], c["align"],
                           [(m[0], m[1]) for m in c["members"]], [(m[0], m[2]) for m in c["members"]]))
            x_rows.append((row_name(cty, cn), r["size"], r["align"],
                           [(m[0], m[1]) for m in r["members"]], [(m[0], m[2]) for m in r["members"]]))
        ov = measure_overlays(cppflags, cfg, libs[cfg])
        ov_rows = [(r["tname"].replace("embedded_pairing::", ""), r["size"], r["align"],
                    [(m[0], m[1]) for m in r["members"]], [(m[0], m[2]) for m in r["members"]]) for r in ov]
        consts = measure_consts(cppflags, cfg)
        if first:
            out.append("/-- `G2Prepared::num_coeffs` as evaluated by the C++ compiler -/")
            out.append("def num_coeffs_cpp : Nat := %d\n" % xextra["num_coeffs"])
            first = False
        else:
            out.append("def num_coeffs_cpp_%s : Nat := %d\n" % (cfg, xextra["num_coeffs"]))
        out.append(lean_rec_list("c_" + cfg, "C side (gcc -std=c11 %s), one row per pairing" % " ".join(cflags), c_rows))
        out.append(lean_rec_list("cpp_" + cfg, "C++ side (g++ -std=c++17 %s), members named by their C counterparts" % " ".join(cppflags), x_rows))
        out.append(lean_rec_list("overlays_" + cfg,
                                 "structs laid over byte buffers by the marshalling code (and lqibe's hash buffer), %s" % cfg, ov_rows))
        out.append("/-- sizeof of the word / dword typedefs: C header vs `BigInt<256>::word_t/dword_t` -/")
        out.append("def word_sizes_c_%s : List (String × Nat) := %s" % (cfg, lean_pairs([("word", cextra["word"]), ("dword", cextra["dword"])])))
        out.append("def word_sizes_cpp_%s : List (String × Nat) := %s\n" % (cfg, lean_pairs([("word", xextra["word"]), ("dword", xextra["dword"])])))
        out.append("/-- exported size constants: bytes of the C symbols in the object compiled from bls12_381.cpp -/")
        out.append("def sizes_c_%s : List (String × Nat) := [\n  %s\n]" % (cfg, ",\n  ".join("(%s, %d)" % (lstr(n), consts[n]) for n in size_consts)))
        out.append("/-- the C++ values they stand for (sizeof of the Encoding overlays / of Fq12) -/")
        out.append("def sizes_cpp_%s : List (String × Nat) := [\n  %s\n]\n" % (cfg, ",\n  ".join("(%s, %d)" % (lstr(n), xextra[n]) for n in size_consts)))
    out.append("end Jedi.Gen.Layout")
    return "\n".join(out) + "\n"


if __name__ == "__main__":
    main()
