#!/usr/bin/env python3
"""T1: extract every numeric constant the proofs mention from /repo's working tree.

The constants are read by *compiling* a dumper that #includes the library's .cpp files
(so file-static constexpr objects are reachable) and printing raw limbs; field elements
are therefore printed as stored, i.e. as Montgomery representatives.  A second, purely
textual pass over the `.std_words = {...}` initialisers must agree on the number of
distinct word lists found (a constant initialised one way and used another is noticed).
Output: lean/JediVerif/Gen/Consts.lean (namespace Jedi.Gen.Consts).
"""
import os, re, subprocess, sys, tempfile, shutil, hashlib

HERE = os.path.dirname(os.path.abspath(__file__))
VERIF = os.path.dirname(HERE)

CPP_UNITS = [
    "src/bls12_381/fq.cpp", "src/bls12_381/fr.cpp", "src/bls12_381/fq2.cpp",
    "src/bls12_381/fq6.cpp", "src/bls12_381/fq12.cpp", "src/bls12_381/fq12_cyclotomic.cpp",
    "src/bls12_381/decomposition.cpp", "src/bls12_381/curve.cpp",
    "src/bls12_381/curve_fast_multiply.cpp", "src/bls12_381/pairing.cpp",
]

DUMPER = r'''
#include <stdio.h>
#include <stdint.h>
using namespace embedded_pairing::bls12_381;
using embedded_pairing::core::BigInt;
template <int bits> static void pbig(const BigInt<bits>& b) {
    printf("0x");
    for (int i = BigInt<bits>::std_word_length - 1; i >= 0; i--) printf("%08x", (unsigned) b.std_words[i]);
}
static void nat(const char* name, unsigned long long v) { printf("N %s %llu\n", name, v); }
template <int bits> static void big(const char* name, const BigInt<bits>& b) { printf("N %s ", name); pbig(b); printf("\n"); }
static void fq(const char* name, const Fq& a) { big(name, a.val); }
static void fq2(const char* name, const Fq2& a) { printf("P %s ", name); pbig(a.c0.val); printf(" "); pbig(a.c1.val); printf("\n"); }
static void fqlist(const char* name, const Fq* a, int n) { printf("L %s", name); for (int i = 0; i < n; i++) { printf(" "); pbig(a[i].val); } printf("\n"); }
static void fq2list(const char* name, const Fq2* a, int n) { printf("PL %s", name); for (int i = 0; i < n; i++) { printf(" "); pbig(a[i].c0.val); printf(","); pbig(a[i].c1.val); } printf("\n"); }
static void fq12(const char* name, const Fq12& a) {
    const Fq* p = reinterpret_cast<const Fq*>(&a);
    fqlist(name, p, 12);
}
int main() {
    big("fq_modulus", fq_modulus); big("fq_R", fq_R); big("fq_R2", fq_R2); big("fq_inv", fq_inv);
    big("fq_modulus_var", fq_modulus_var); big("fq_R_var", fq_R_var); big("fq_R2_var", fq_R2_var); big("fq_inv_var", fq_inv_var);
    fq("fq_one", Fq::one); fq("fq_zero", Fq::zero); fq("fq_negative_one", Fq::negative_one);
    big("fq_qminusthreeoverfourplusone", fq_qminusthreeoverfourplusone);
    big("fr_modulus", fr_modulus); big("fr_R", fr_R); big("fr_R2", fr_R2); big("fr_inv", fr_inv);
    big("fr_modulus_var", fr_modulus_var); big("fr_R_var", fr_R_var); big("fr_R2_var", fr_R2_var); big("fr_inv_var", fr_inv_var);
    big("fr_one", Fr::one.val); big("fr_zero", Fr::zero.val);
    big("fr_root_of_unity", fr_root_of_unity); big("fr_t_constant", fr_t_constant); big("fr_tplusoneovertwo", fr_tplusoneovertwo);
    fqlist("fq2_frobenius_coeff", fq2_frobenius_coeff, 2);
    big("fq2_qminusthreeoverfour", fq2_qminusthreeoverfour); big("fq2_qminusoneovertwo", fq2_qminusoneovertwo);
    fq2("fq2_one", Fq2::one); fq2("fq2_zero", Fq2::zero); fq2("fq2_negative_one", Fq2::negative_one);
    fq2list("fq6_frobenius_coeff_c1", fq6_frobenius_coeff_c1, 6);
    fq2list("fq6_frobenius_coeff_c2", fq6_frobenius_coeff_c2, 6);
    fq2list("fq12_frobenius_coeff_c1", fq12_frobenius_coeff_c1, 12);
    fq12("fq12_one", Fq12::one); fq12("fq12_zero", Fq12::zero);
    big("bls_x", bls_x); nat("bls_x_num_set_bits", bls_x_num_set_bits); nat("bls_x_highest_set_bit", bls_x_highest_set_bit);
    nat("bls_x_is_negative", bls_x_is_negative ? 1 : 0);
    big("bls_x_squared", bls_x_squared); big("bls_x_cubed", bls_x_cubed);
    big("g1_endomorphism_lambda", g1_endomorphism_lambda); big("fr_p_value_reciprocal", fr_p_value_reciprocal);
    big("g1_v1_2", g1_v1_2); big("g1_v2_1", g1_v2_1);
    fq("g1_endomorphism_beta", g1_endomorphism_beta);
    fq2("uplusonetotheqminusoneoversix", uplusonetotheqminusoneoversix);
    fq("g1_b_coeff", g1_b_coeff); fq2("g2_b_coeff", g2_b_coeff);
    fq("g1_b_coeff_var", g1_b_coeff_var); fq2("g2_b_coeff_var", g2_b_coeff_var);
    fq("g1_generator_x", G1Affine::generator.x); fq("g1_generator_y", G1Affine::generator.y);
    nat("g1_generator_infinity", G1Affine::generator.infinity ? 1 : 0);
    fq2("g2_generator_x", G2Affine::generator.x); fq2("g2_generator_y", G2Affine::generator.y);
    nat("g2_generator_infinity", G2Affine::generator.infinity ? 1 : 0);
    fq("g1affine_zero_x", G1Affine::zero.x); fq("g1affine_zero_y", G1Affine::zero.y); nat("g1affine_zero_infinity", G1Affine::zero.infinity ? 1 : 0);
    fq2("g2affine_zero_x", G2Affine::zero.x); fq2("g2affine_zero_y", G2Affine::zero.y); nat("g2affine_zero_infinity", G2Affine::zero.infinity ? 1 : 0);
    fq("g1_zero_x", G1::zero.x); fq("g1_zero_y", G1::zero.y); fq("g1_zero_z", G1::zero.z);
    fq("g1_one_x", G1::one.x); fq("g1_one_y", G1::one.y); fq("g1_one_z", G1::one.z);
    fq2("g2_zero_x", G2::zero.x); fq2("g2_zero_y", G2::zero.y); fq2("g2_zero_z", G2::zero.z);
    fq2("g2_one_x", G2::one.x); fq2("g2_one_y", G2::one.y); fq2("g2_one_z", G2::one.z);
    big("g1_cofactor", G1Affine::cofactor); big("g2_cofactor", G2Affine::cofactor);
    fq12("generator_pairing", generator_pairing);
    nat("num_coeffs", G2Prepared::num_coeffs);
    nat("encoding_flags_compressed", encoding_flags_compressed); nat("encoding_flags_infinity", encoding_flags_infinity); nat("encoding_flags_greater", encoding_flags_greater);
    nat("g1_compressed_size", Encoding<G1Affine, true>::size); nat("g1_uncompressed_size", Encoding<G1Affine, false>::size);
    nat("g2_compressed_size", Encoding<G2Affine, true>::size); nat("g2_uncompressed_size", Encoding<G2Affine, false>::size);
    nat("gt_size", sizeof(Fq12)); nat("fq_size", sizeof(Fq)); nat("fr_bits", fr_bits); nat("fq_bits", fq_bits);
    return 0;
}
'''

def run(repo, out):
    tmp = tempfile.mkdtemp(prefix="jedi_consts_")
    try:
        src = os.path.join(tmp, "dump.cpp")
        with open(src, "w") as f:
            for u in CPP_UNITS:
                f.write('#include "%s"\n' % os.path.join(repo, u))
            f.write(DUMPER)
        exe = os.path.join(tmp, "dump")
        r = subprocess.run(["g++", "-std=c++17", "-O0", "-DDISABLE_ASM", "-I", os.path.join(repo, "include"), src, "-o", exe],
                           capture_output=True, text=True)
        if r.returncode != 0:
            sys.stderr.write("consts2lean: dumper does not compile against %s\n%s\n" % (repo, r.stderr[:4000]))
            return 2
        txt = subprocess.run([exe], capture_output=True, text=True, check=True).stdout
    finally:
        shutil.rmtree(tmp, ignore_errors=True)
    lines = ["/- GENERATED by translate/consts2lean.py from /repo's working tree; do not edit. -/",
             "namespace Jedi.Gen.Consts", ""]
    names = []
    for ln in txt.splitlines():
        parts = ln.split()
        kind, name, vals = parts[0], parts[1], parts[2:]
        names.append(name)
        if kind == "N":
            lines.append("def %s : Nat := %s" % (name, vals[0]))
        elif kind == "P":
            lines.append("def %s : Nat × Nat := (%s, %s)" % (name, vals[0], vals[1]))
        elif kind == "L":
            lines.append("def %s : List Nat := [%s]" % (name, ", ".join(vals)))
        elif kind == "PL":
            lines.append("def %s : List (Nat × Nat) := [%s]" % (name, ", ".join("(%s, %s)" % tuple(v.split(",")) for v in vals)))
        else:
            raise SystemExit("consts2lean: bad dumper line " + ln)
    lines += ["", "end Jedi.Gen.Consts", ""]
    # second, textual pass: count .std_words initialisers in the sources we dumped from
    textual = 0
    for root in ("src/bls12_381", "include/bls12_381"):
        d = os.path.join(repo, root)
        for fn in sorted(os.listdir(d)):
            with open(os.path.join(d, fn)) as f:
                textual += len(re.findall(r"\.std_words\s*=\s*\{", f.read()))
    lines.insert(2, "/-- number of `.std_words = {` initialisers seen by the textual pass -/\ndef textual_std_words_count : Nat := %d" % textual)
    new = "\n".join(lines)
    os.makedirs(os.path.dirname(out), exist_ok=True)
    old = open(out).read() if os.path.exists(out) else None
    if old != new:
        with open(out, "w") as f:
            f.write(new)
    print("consts2lean: %d constants, %d textual initialisers -> %s%s" % (len(names), textual, out, "" if old != new else " (unchanged)"))
    return 0

if __name__ == "__main__":
    repo = sys.argv[1] if len(sys.argv) > 1 else "/repo"
    out = sys.argv[2] if len(sys.argv) > 2 else os.path.join(VERIF, "lean/JediVerif/Gen/Consts.lean")
    sys.exit(run(repo, out))
