#!/usr/bin/env python3
"""T3: translate straight-line C++ member code of /repo (house style: `recv.method(args);`,
locals, reference aliases, `if (cond) { …; return; }`) into pure Lean functions.

Source of truth is clang's typed AST (-ast-dump=json), so overloads and template
instantiations are resolved by the compiler.  Each function is translated to SSA over
*locations* (root object, field path); under an alias pattern the roots are unified before
translation, so `out == a`, `out == b`, `out == a == b` variants are separate Lean functions
whose equality is a theorem (property C18), and every call site calls the callee variant
matching the aliasing *at that call site*.

Anything outside the implemented subset raises TranslateError naming the construct: a
translator failure is an undischarged obligation, never a silent skip.
"""
import json, os, re, subprocess, sys, itertools

HERE = os.path.dirname(os.path.abspath(__file__))
VERIF = os.path.dirname(HERE)

class TranslateError(Exception):
    pass

# ----------------------------------------------------------------------------- types
NS = "embedded_pairing::bls12_381::"
STRUCTS = {            # C++ type -> (lean type, fields [(name, c++ type)])
    "Fq":   ("F", None),
    "Fq2":  ("Q2 F", [("c0", "Fq"), ("c1", "Fq")]),
    "Fq6":  ("Q6 F", [("c0", "Fq2"), ("c1", "Fq2"), ("c2", "Fq2")]),
    "Fq12": ("Q12 F", [("c0", "Fq6"), ("c1", "Fq6")]),
    "MillerTriple": ("MT F", [("a", "Fq2"), ("b", "Fq2"), ("c", "Fq2")]),
    "bool": ("Bool", None),
    "uint": ("Nat", None),
}
def struct_for_curve(base):
    STRUCTS["Projective<%s>" % base] = ("Jac (%s)" % STRUCTS[base][0], [("x", base), ("y", base), ("z", base)])
    STRUCTS["Affine<%s>" % base] = ("Aff (%s)" % STRUCTS[base][0], [("x", base), ("y", base), ("infinity", "bool")])
struct_for_curve("Fq"); struct_for_curve("Fq2")
ALIASES = {"G1": "Projective<Fq>", "G2": "Projective<Fq2>", "G1Affine": "Affine<Fq>", "G2Affine": "Affine<Fq2>"}

def norm_type(qt):
    """clang qualType -> key of STRUCTS (or None)"""
    t = qt.replace("struct ", "").replace("const ", "").replace("__restrict", "").replace("&", "").replace("*", "").strip()
    t = t.replace(NS, "").replace("embedded_pairing::core::", "")
    t = re.sub(r"\s+", " ", t).strip()
    if t.startswith("Fp<384"): return "Fq"
    if t in ("BaseField", "typename Affine::BaseFieldType"): return None
    if t in ALIASES: return ALIASES[t]
    m = re.match(r"Projective<(?:embedded_pairing::bls12_381::)?(Fq2?)>", t)
    if m: return "Projective<%s>" % m.group(1)
    m = re.match(r"Affine<(?:embedded_pairing::bls12_381::)?(Fq2?),", t)
    if m: return "Affine<%s>" % m.group(1)
    if t in ("unsigned int", "int", "size_t", "unsigned long"): return "uint"
    if t == "bool": return "bool"
    if t in STRUCTS: return t
    return None

# base-field (Fq / generic F) primitive operations -> Lean notation, and the classes they need
PRIM = {
    "add": ("(%s + %s)", 2, {"Add"}), "subtract": ("(%s - %s)", 2, {"Sub"}), "multiply": ("(%s * %s)", 2, {"Mul"}),
    "square": ("(%s * %s)", 1, {"Mul"}), "multiply2": ("(%s + %s)", 1, {"Add"}), "negate": ("(-%s)", 1, {"Neg"}),
    "copy": ("%s", 1, set()), "inverse": ("%s⁻¹", 1, {"Inv"}),
}
CLASS_BINDERS = [("Add", "[Add F]"), ("Sub", "[Sub F]"), ("Mul", "[Mul F]"), ("Neg", "[Neg F]"), ("Zero", "[Zero F]"),
                 ("One", "[One F]"), ("Inv", "[Inv F]"), ("DecEq", "[DecidableEq F]"), ("Consts", "[TowerConsts F]")]
CONST_TABLES = {"fq2_frobenius_coeff", "fq6_frobenius_coeff_c1", "fq6_frobenius_coeff_c2", "fq12_frobenius_coeff_c1",
                "g1_endomorphism_beta", "uplusonetotheqminusoneoversix"}
LEAN_NS = {"Fq2": "Fq2", "Fq6": "Fq6", "Fq12": "Fq12", "Projective<Fq>": "Proj", "Projective<Fq2>": "Proj2",
           "Affine<Fq>": "Affn", "Affine<Fq2>": "Affn2", "MillerTriple": "MT"}

# ----------------------------------------------------------------------------- AST loading
def load_ast(repo, relpath, filt):
    cmd = ["clang++-14", "-std=gnu++17", "-I", os.path.join(repo, "include"), "-fsyntax-only",
           "-Xclang", "-ast-dump=json"] + (["-Xclang", "-ast-dump-filter=" + filt] if filt else []) + [os.path.join(repo, relpath)]
    r = subprocess.run(cmd, capture_output=True, text=True)
    if r.returncode != 0:
        raise TranslateError("clang failed on %s: %s" % (relpath, r.stderr[:2000]))
    txt = r.stdout; dec = json.JSONDecoder(); i = 0; objs = []
    while i < len(txt):
        while i < len(txt) and txt[i] in " \n\r\t": i += 1
        if i >= len(txt): break
        o, j = dec.raw_decode(txt, i); objs.append(o); i = j
    return objs

def body_of(decl):
    for c in decl.get("inner", []):
        if c.get("kind") == "CompoundStmt": return c
    return None

def strip_casts(n):
    while n.get("kind") in ("ImplicitCastExpr", "ParenExpr", "MaterializeTemporaryExpr", "ExprWithCleanups", "CXXBindTemporaryExpr", "CXXFunctionalCastExpr", "CStyleCastExpr", "SubstNonTypeTemplateParmExpr", "ConstantExpr") and n.get("inner"):
        n = n["inner"][-1] if n.get("kind") == "SubstNonTypeTemplateParmExpr" else n["inner"][0]
    return n

# ----------------------------------------------------------------------------- store
class Store:
    """root -> tree; tree = ['leaf', expr] | ['node', {field: tree}] | ['undef']"""
    def __init__(self): self.roots = {}; self.types = {}
    def clone(self):
        s = Store(); s.roots = json.loads(json.dumps(self.roots)); s.types = dict(self.types); return s
    def declare(self, root, ctype, init=None):
        self.types[root] = ctype
        self.roots[root] = ["leaf", init] if init is not None else ["undef"]
    def _fields(self, ctype):
        f = STRUCTS[ctype][1]
        if f is None: raise TranslateError("type %s has no fields" % ctype)
        return f
    def ftype(self, ctype, field):
        for (n, t) in self._fields(ctype):
            if n == field: return t
        raise TranslateError("no field %s in %s" % (field, ctype))
    def type_at(self, root, path):
        t = self.types[root]
        for f in path: t = self.ftype(t, f)
        return t
    def _expand(self, tree, ctype):
        if tree[0] == "node": return tree
        if tree[0] == "leaf":
            return ["node", {n: ["leaf", "%s.%s" % (tree[1], n)] for (n, _) in self._fields(ctype)}]
        return ["node", {n: ["undef"] for (n, _) in self._fields(ctype)}]
    def read(self, root, path):
        tree = self.roots[root]; ctype = self.types[root]; where = root
        for f in path:
            if tree[0] == "leaf":
                tree = ["leaf", "%s.%s" % (tree[1], f)]
            elif tree[0] == "node":
                tree = tree[1][f]
            else:
                raise TranslateError("read of uninitialised %s.%s" % (where, ".".join(path)))
            ctype = self.ftype(ctype, f); where += "." + f
        return self._build(tree, ctype, where)
    def _build(self, tree, ctype, where):
        if tree[0] == "leaf": return tree[1]
        if tree[0] == "undef": raise TranslateError("read of uninitialised %s" % where)
        parts = [self._build(tree[1][n], t, where + "." + n) for (n, t) in self._fields(ctype)]
        return "⟨" + ", ".join(parts) + "⟩"
    def write(self, root, path, expr):
        if not path:
            self.roots[root] = ["leaf", expr]; return
        ctype = self.types[root]
        self.roots[root] = self._expand(self.roots[root], ctype)
        tree = self.roots[root]
        for i, f in enumerate(path):
            ft = self.ftype(ctype, f)
            if i == len(path) - 1:
                tree[1][f] = ["leaf", expr]
            else:
                tree[1][f] = self._expand(tree[1][f], ft)
                tree = tree[1][f]
            ctype = ft

# ----------------------------------------------------------------------------- function translation
def okind(cls, method, ctypes):
    """discriminator for the one overload set we translate: Projective::add(Projective) / add(Affine)"""
    if cls and cls.startswith("Projective") and method in ("add",) and any(t and t.startswith("Affine") for t in ctypes):
        return "A"
    return ""

class Sig:
    def __init__(self, cls, name, params, ret, is_method, decl, const_method=False):
        self.cls = cls; self.name = name; self.params = params; self.ret = ret; self.is_method = is_method
        self.decl = decl; self.const_method = const_method
        # params: list of dict(name, ctype, restrict, const, ref)
    def aliasable(self):
        if not self.is_method or self.const_method: return []
        return [p["name"] for p in self.params if p["ctype"] == self.cls and not p["restrict"] and p["ref"]]

def parse_params(decl):
    ps = []
    for c in decl.get("inner", []):
        if c.get("kind") == "ParmVarDecl":
            qt = c["type"]["qualType"]
            ps.append({"name": c.get("name", "_"), "ctype": norm_type(qt), "restrict": "__restrict" in qt,
                       "const": qt.strip().startswith("const"), "ref": "&" in qt, "qt": qt})
    return ps

class FnTranslator:
    def __init__(self, unit, sig, alias_set, lean_name):
        self.u = unit; self.sig = sig; self.alias_set = tuple(alias_set); self.lean_name = lean_name
        self.lines = []; self.counter = {}; self.classes = set(); self.refalias = {}
        self.store = Store(); self.rootmap = {}
        self.calls = []   # names of generated callees (for dependency ordering)

    def fresh(self, base):
        base = re.sub(r"[^A-Za-z0-9_]", "_", base)
        k = self.counter.get(base, 0) + 1; self.counter[base] = k
        return "%s_%d" % (base, k)

    # -- locations
    def loc(self, n):
        """returns ('loc', root, path) or ('const', leanexpr, ctype)"""
        n = strip_casts(n)
        k = n.get("kind")
        if k == "CXXThisExpr": return ("loc", self.rootmap["this"], ())
        if k == "UnaryOperator" and n.get("opcode") == "*":
            return self.loc(n["inner"][0])
        if k == "DeclRefExpr":
            rd = n["referencedDecl"]; name = rd.get("name")
            if rd.get("kind") in ("ParmVarDecl", "VarDecl") and (name in self.rootmap or name in self.refalias):
                if name in self.refalias:
                    r, p = self.refalias[name]; return ("loc", r, p)
                return ("loc", self.rootmap[name], ())
            if rd.get("kind") == "VarDecl":
                ct = norm_type(rd["type"]["qualType"])
                return self.constant(name, ct, rd["type"]["qualType"])
            raise TranslateError("unsupported reference to %s (%s)" % (name, rd.get("kind")))
        if k == "MemberExpr":
            base = self.loc(n["inner"][0]); f = n["name"]
            if base[0] == "const":
                return ("const", "%s.%s" % (base[1], f), self.store.ftype(base[2], f))
            return ("loc", base[1], base[2] + (f,))
        if k == "ArraySubscriptExpr":
            arr = strip_casts(n["inner"][0]); idx = self.intexpr(n["inner"][1])
            if arr.get("kind") == "DeclRefExpr" and arr["referencedDecl"]["name"] in CONST_TABLES:
                self.classes.add("Consts")
                et = norm_type(re.sub(r"\[\d+\]", "", arr["referencedDecl"]["type"]["qualType"]))
                return ("const", "(TowerConsts.%s %s)" % (arr["referencedDecl"]["name"], idx), et)
            raise TranslateError("unsupported array subscript")
        raise TranslateError("unsupported lvalue kind %s" % k)

    def constant(self, name, ct, qt):
        if name in CONST_TABLES:
            self.classes.add("Consts"); return ("const", "TowerConsts.%s" % name, ct)
        lt = STRUCTS[ct][0] if ct in STRUCTS else None
        if name == "zero":
            self.classes.add("Zero")
            if ct and ct.startswith("Projective"): self.classes.add("One"); return ("const", "(⟨0, 1, 0⟩ : %s)" % lt, ct)
            if ct and ct.startswith("Affine"): self.classes.add("One"); return ("const", "(⟨0, 1, true⟩ : %s)" % lt, ct)
            return ("const", "(0 : %s)" % lt, ct)
        if name == "one":
            self.classes |= {"One", "Zero"}; return ("const", "(1 : %s)" % lt, ct)
        if name == "negative_one":
            self.classes |= {"One", "Zero", "Neg"}; return ("const", "(-1 : %s)" % lt, ct)
        if name in ("curve_b", "coeff_b", "g1_b_coeff_var", "g2_b_coeff_var"):
            return ("const", "curve_b", ct)
        raise TranslateError("unknown constant %s : %s" % (name, qt))

    def value(self, n):
        l = self.loc(n)
        if l[0] == "const": return l[1]
        return self.store.read(l[1], l[2])

    def safe_ctype(self, n):
        try: return self.ctype_of(n)
        except TranslateError: return None

    def ctype_of(self, n):
        l = self.loc(n)
        if l[0] == "const": return l[2]
        return self.store.type_at(l[1], l[2])

    # -- integer / boolean expressions
    def intexpr(self, n):
        n = strip_casts(n); k = n.get("kind")
        if k == "IntegerLiteral": return str(n["value"])
        if k == "DeclRefExpr":
            name = n["referencedDecl"]["name"]
            if name in self.rootmap: return self.store.read(self.rootmap[name], ())
            raise TranslateError("unknown integer variable %s" % name)
        if k == "BinaryOperator":
            a = self.intexpr(n["inner"][0]); b = self.intexpr(n["inner"][1]); op = n["opcode"]
            if op in ("%", "+", "*", "/"): return "(%s %s %s)" % (a, op, b)
            if op == "&": return "(%s &&& %s)" % (a, b)
            if op == "<": return "(decide (%s < %s))" % (a, b)
            raise TranslateError("integer operator %s" % op)
        if k == "ConditionalOperator":
            c = self.boolexpr(n["inner"][0]); a = self.intexpr(n["inner"][1]); b = self.intexpr(n["inner"][2])
            return "(if %s then %s else %s)" % (c, a, b)
        raise TranslateError("unsupported integer expression %s" % k)

    def boolexpr(self, n):
        n = strip_casts(n); k = n.get("kind")
        if k == "CXXBoolLiteralExpr": return "true" if n["value"] else "false"
        if k == "BinaryOperator":
            op = n["opcode"]
            if op == "&&": return "(%s && %s)" % (self.boolexpr(n["inner"][0]), self.boolexpr(n["inner"][1]))
            if op == "||": return "(%s || %s)" % (self.boolexpr(n["inner"][0]), self.boolexpr(n["inner"][1]))
            if op == "<": return "(decide (%s < %s))" % (self.intexpr(n["inner"][0]), self.intexpr(n["inner"][1]))
            if op in ("==", "!="):
                ta = self.try_bool(n["inner"][0]); tb = self.try_bool(n["inner"][1])
                if ta is not None and tb is not None:
                    return "(%s %s %s)" % (ta, "==" if op == "==" else "!=", tb)
            raise TranslateError("boolean operator %s" % op)
        if k == "UnaryOperator" and n.get("opcode") == "!":
            return "(!%s)" % self.boolexpr(n["inner"][0])
        if k == "DeclRefExpr" or k == "MemberExpr":
            return self.value(n)
        if k == "CXXMemberCallExpr":
            callee = n["inner"][0]; m = callee["name"]; obj = callee["inner"][0]
            ct = self.ctype_of(obj)
            if m == "is_zero":
                if ct == "Fq":
                    self.classes |= {"Zero", "DecEq"}; return "(decide (%s = 0))" % self.value(obj)
                if ct.startswith("Projective"):
                    sub = STRUCTS[ct][1][2][1]
                    zval = self.store.read(*self._sub(self.loc(obj), "z"))
                    return self.is_zero_of(sub, zval)
                if ct.startswith("Affine"):
                    return self.store.read(*self._sub(self.loc(obj), "infinity"))
                return self.is_zero_of(ct, self.value(obj))
            raise TranslateError("unsupported boolean method %s" % m)
        if k == "CallExpr":
            fn = strip_casts(n["inner"][0])
            if fn.get("kind") == "DeclRefExpr" and fn["referencedDecl"]["name"] == "equal":
                a, b = n["inner"][1], n["inner"][2]
                ct = self.ctype_of(a)
                return self.equal_of(ct, self.value(a), self.value(b))
            raise TranslateError("unsupported call in condition")
        raise TranslateError("unsupported boolean expression %s" % k)

    def try_bool(self, n):
        try: return self.boolexpr(n)
        except TranslateError: return None

    def _sub(self, l, f):
        if l[0] != "loc": raise TranslateError("field of constant")
        return (l[1], l[2] + (f,))

    def is_zero_of(self, ct, v):
        if ct == "Fq":
            self.classes |= {"Zero", "DecEq"}; return "(decide (%s = 0))" % v
        self.u.need(ct, "is_zero"); self.calls.append("%s.is_zero" % LEAN_NS[ct]); self.classes |= {"Zero", "DecEq"}
        return "(%s.is_zero %s)" % (LEAN_NS[ct], v)

    def equal_of(self, ct, a, b):
        if ct == "Fq":
            self.classes |= {"DecEq"}; return "(decide (%s = %s))" % (a, b)
        self.u.need(ct, "equal"); self.calls.append("%s.equal" % LEAN_NS[ct]); self.classes |= {"DecEq"}
        return "(%s.equal %s %s)" % (LEAN_NS[ct], a, b)

    # -- statements
    def emit(self, name, expr):
        self.lines.append("let %s := %s" % (name, expr))

    def assign(self, l, expr, hint):
        if l[0] != "loc": raise TranslateError("assignment to constant")
        root, path = l[1], l[2]
        v = self.fresh((root if root != "this" else "out") + ("_" + "_".join(path) if path else "") or hint)
        self.emit(v, expr); self.store.write(root, path, v)

    def overlap(self, la, lb):
        if la[0] != "loc" or lb[0] != "loc" or la[1] != lb[1]: return None
        pa, pb = la[2], lb[2]
        if pa == pb: return "same"
        n = min(len(pa), len(pb))
        if pa[:n] == pb[:n]: return "partial"
        return None

    def do_call(self, recv_node, method, args, callee_decl_type):
        rl = self.loc(recv_node)
        rct = self.ctype_of(recv_node)
        # primitive on the base field
        if rct == "Fq":
            if method == "frobenius_map": raise TranslateError("Fq has no frobenius_map")
            if method not in PRIM: raise TranslateError("unsupported Fq method %s" % method)
            fmt, nargs, cls = PRIM[method]; self.classes |= cls
            vals = [self.value(a) for a in args[:nargs] ] if method not in ("square", "multiply2") else [self.value(args[0])] * 2
            if method in ("square", "multiply2"): expr = fmt % (vals[0], vals[1])
            elif nargs == 2: expr = fmt % (vals[0], vals[1])
            else: expr = fmt % vals[0]
            self.assign(rl, expr, method); return
        if method == "copy":
            self.assign(rl, self.value(args[0]), "copy"); return
        kind = okind(rct, method, [self.safe_ctype(a) for a in args])
        sig = self.u.sig(rct, method, len(args), kind)
        # alias pattern at this call site
        arglocs = []
        for a, p in zip(args, sig.params):
            if p["ctype"] in ("uint", "bool") or p["ctype"] is None:
                arglocs.append(None)
            else:
                arglocs.append(self.loc(a))
        aliased = []
        for al, p in zip(arglocs, sig.params):
            if al is None: continue
            ov = self.overlap(rl, al)
            if ov == "partial": raise TranslateError("partially overlapping receiver and argument in call to %s::%s" % (rct, method))
            if ov == "same":
                if p["restrict"]: raise TranslateError("in %s: receiver aliases __restrict parameter %s of %s::%s (undefined behaviour in the source)" % (self.lean_name, p["name"], rct, method))
                aliased.append(p["name"])
        for (i, pi), (j, pj) in itertools.combinations(list(enumerate(sig.params)), 2):
            if arglocs[i] is None or arglocs[j] is None: continue
            if (pi["restrict"] or pj["restrict"]) and self.overlap(arglocs[i], arglocs[j]):
                raise TranslateError("aliased __restrict arguments in call to %s::%s" % (rct, method))
        name = self.u.need(rct, method, tuple(aliased), nargs=len(args), kind=kind)
        self.calls.append(name)
        argv = []
        seen_alias = False
        for a, p in zip(args, sig.params):
            if p["name"] in aliased:
                if seen_alias: continue
                seen_alias = True
            if p["ctype"] == "uint": argv.append(self.intexpr(a))
            elif p["ctype"] == "bool": argv.append(self.boolexpr(a))
            else: argv.append(self.value(a))
        self.assign(rl, "%s %s" % (name, " ".join(argv)), method)

    def do_free_call(self, n):
        fn = strip_casts(n["inner"][0]); name = fn["referencedDecl"]["name"]; args = n["inner"][1:]
        if name == "fp_inverse":
            self.classes.add("Inv"); self.assign(self.loc(args[0]), "%s⁻¹" % self.value(args[1]), "inv"); return
        if name == "exp_by_x_restrict":
            # a bounded loop over the bits of bls_x: modelled by hand (Impl/ExpByX.lean); the template arguments are
            # read from the specialization the compiler resolved this call to
            spec = getattr(self.u, "free_spec", {}).get(fn["referencedDecl"]["id"])
            if spec is None: raise TranslateError("cannot resolve the specialization of exp_by_x_restrict")
            shift, sq = spec[1][0], spec[1][1]
            self.classes |= {"Add", "Sub", "Mul", "Neg", "Zero", "One"}
            self.assign(self.loc(args[0]), "Jedi.Impl.expByX %d %s %s" % (int(shift), "true" if int(sq) != 0 else "false", self.value(args[1])), "expx"); return
        sig = self.u.free_sig(name)
        lname = self.u.need_free(name); self.calls.append(lname)
        outs = [i for i, p in enumerate(sig.params) if p["ref"] and not p["const"]]
        argv = []
        for a, p in zip(args, sig.params):
            if p["ctype"] == "uint": argv.append(self.intexpr(a))
            elif p["ctype"] == "bool": argv.append(self.boolexpr(a))
            elif p["ref"] and not p["const"] and self.u.free_out_only(name, p["name"]): continue
            else: argv.append(self.value(a))
        call = "%s %s" % (lname, " ".join(argv))
        if len(outs) == 1:
            self.assign(self.loc(args[outs[0]]), call, name)
        else:
            t = self.fresh("r_" + name); self.emit(t, call)
            for k, i in enumerate(outs):
                proj = ".1" if k == 0 else (".2" if k == len(outs) - 1 and len(outs) == 2 else ".2" * k + (".1" if k < len(outs) - 1 else ""))
                self.assign(self.loc(args[i]), "%s%s" % (t, proj), name)

    def stmts(self, body, tail):
        """translate a list of statements; `tail` is a thunk producing the final return expression"""
        for idx, s in enumerate(body):
            k = s.get("kind")
            if k == "DeclStmt":
                for d in s.get("inner", []):
                    self.decl(d)
            elif k in ("CXXMemberCallExpr",):
                callee = s["inner"][0]
                self.do_call(callee["inner"][0], callee["name"], s["inner"][1:], None)
            elif k == "CallExpr":
                self.do_free_call(s)
            elif k == "ExprWithCleanups":
                self.stmts([s["inner"][0]], None)
            elif k == "IfStmt":
                inner = s["inner"]
                cond = self.boolexpr(inner[0])
                then = inner[1]; els = inner[2] if len(inner) > 2 else None
                then_body = then["inner"] if then.get("kind") == "CompoundStmt" else [then]
                returns = bool(then_body) and then_body[-1].get("kind") == "ReturnStmt"
                if returns and els is None:
                    saved_store = self.store.clone(); saved_lines = self.lines; saved_alias = dict(self.refalias)
                    self.lines = []
                    self.stmts(then_body[:-1], None)
                    tret = self.ret_expr(then_body[-1])
                    tlines = self.lines
                    self.store = saved_store; self.lines = []; self.refalias = saved_alias
                    self.stmts(body[idx + 1:], tail)
                    eret = self.final
                    elines = self.lines
                    self.lines = saved_lines
                    self.lines.append("if %s then" % cond)
                    self.lines += ["  " + l for l in tlines] + ["  " + tret]
                    self.lines.append("else")
                    self.lines += ["  " + l for l in elines] + (["  " + eret] if eret is not None else [])
                    self.final = None; self.done_final = True   # already emitted
                    return
                if els is not None and not returns:
                    # if/else, neither branch returns: run both on copies of the store, merge the roots that changed
                    els_body = els["inner"] if els.get("kind") == "CompoundStmt" else [els]
                    base_store = self.store.clone(); saved_lines = self.lines; saved_alias = dict(self.refalias)
                    self.lines = []; self.stmts_nofinal(then_body); tstore = self.store; tlines = self.lines
                    self.store = base_store.clone(); self.refalias = dict(saved_alias)
                    self.lines = []; self.stmts_nofinal(els_body); estore = self.store; elines = self.lines
                    self.lines = saved_lines; self.refalias = saved_alias
                    changed = [r for r in tstore.roots if json.dumps(tstore.roots[r]) != json.dumps(base_store.roots.get(r)) or json.dumps(estore.roots[r]) != json.dumps(base_store.roots.get(r))]
                    if not changed:
                        self.store = base_store; continue
                    tv = [tstore.read(r, ()) for r in changed]; ev = [estore.read(r, ()) for r in changed]
                    names = [self.fresh(("out" if r == "this" else r) + "_m") for r in changed]
                    pat = names[0] if len(names) == 1 else "(" + ", ".join(names) + ")"
                    tup = lambda vs: vs[0] if len(vs) == 1 else "(" + ", ".join(vs) + ")"
                    self.lines.append("let %s :=" % pat)
                    self.lines.append("  if %s then" % cond)
                    self.lines += ["    " + l for l in tlines] + ["    " + tup(tv)]
                    self.lines.append("  else")
                    self.lines += ["    " + l for l in elines] + ["    " + tup(ev)]
                    self.store = base_store
                    for r, nme in zip(changed, names): self.store.write(r, (), nme)
                    continue
                raise TranslateError("unsupported if-statement shape in %s" % self.lean_name)
            elif k == "BinaryOperator" and s.get("opcode") == "=":
                lhs = self.loc(s["inner"][0]); ct = self.ctype_of(s["inner"][0])
                if ct == "bool": self.assign(lhs, self.boolexpr(s["inner"][1]), "flag")
                elif ct == "uint": self.assign(lhs, self.intexpr(s["inner"][1]), "n")
                else: self.assign(lhs, self.value(s["inner"][1]), "v")
            elif k == "ReturnStmt":
                self.final = self.ret_expr(s); return
            elif k == "NullStmt":
                pass
            else:
                raise TranslateError("unsupported statement %s in %s" % (k, self.lean_name))
        try:
            self.final = self.ret_expr(None)
        except TranslateError:
            self.final = None

    def stmts_nofinal(self, body):
        saved = getattr(self, "final", None)
        self.stmts(body, None)
        self.final = saved

    def decl(self, d):
        if d.get("kind") != "VarDecl": raise TranslateError("unsupported declaration %s" % d.get("kind"))
        name = d["name"]; qt = d["type"]["qualType"]; ct = norm_type(qt)
        init = [c for c in d.get("inner", []) if c.get("kind") not in ("CXXConstructExpr",)]
        if "&" in qt:
            l = self.loc(init[0])
            if l[0] != "loc": raise TranslateError("reference to constant")
            self.refalias[name] = (l[1], l[2]); return
        if ct in ("uint", "bool"):
            if not init: raise TranslateError("uninitialised scalar %s" % name)
            v = self.fresh(name)
            self.emit(v, self.intexpr(init[0]) if ct == "uint" else self.boolexpr(init[0]))
            self.rootmap[name] = name; self.store.declare(name, ct, v); return
        if ct is None: raise TranslateError("unsupported local type %s" % qt)
        if init:
            raise TranslateError("initialised aggregate local %s in %s" % (name, self.lean_name))
        self.rootmap[name] = name; self.store.declare(name, ct)

    def ret_expr(self, retstmt):
        if retstmt is not None and retstmt.get("inner"):
            return self.boolexpr(retstmt["inner"][0]) if self.sig.ret == "bool" else self.value(retstmt["inner"][0])
        outs = self.out_roots
        vals = [self.store.read(r, ()) for r in outs]
        return vals[0] if len(vals) == 1 else "(" + ", ".join(vals) + ")"

    def run(self):
        sig = self.sig
        params_lean = []
        self.out_roots = []
        if sig.is_method:
            self.rootmap["this"] = "this"
            if sig.const_method:
                self.store.declare("this", sig.cls, "self"); params_lean.append(("self", sig.cls))
            elif self.alias_set:
                first = self.alias_set[0]
                self.store.declare("this", sig.cls, first)
                self.out_roots.append("this")
            else:
                self.store.declare("this", sig.cls)
                self.out_roots.append("this")
        done_alias = False
        if not sig.is_method and self.alias_set:
            # free function: the first mutable reference parameter plays the role of `this`
            outp = [p for p in sig.params if p["ref"] and not p["const"] and p["ctype"] not in ("uint", "bool")][0]
            first = self.alias_set[0]
            self.rootmap[outp["name"]] = outp["name"]; self.store.declare(outp["name"], outp["ctype"], first)
            self.out_roots.append(outp["name"])
            for p in sig.params:
                if p["name"] == outp["name"]: continue
                if p["name"] in self.alias_set:
                    self.rootmap[p["name"]] = outp["name"]
                    if not done_alias: params_lean.append((p["name"], p["ctype"])); done_alias = True
                    continue
                self.rootmap[p["name"]] = p["name"]
                if p["ref"] and not p["const"] and p["ctype"] not in ("uint", "bool"): self.out_roots.append(p["name"])
                self.store.declare(p["name"], p["ctype"], p["name"]); params_lean.append((p["name"], p["ctype"]))
            self.final = None
            body = body_of(sig.decl)
            self.stmts(body.get("inner", []), None)
            if not getattr(self, "done_final", False):
                if self.final is None: self.final = self.ret_expr(None)
                self.lines.append(self.final)
            tys = [STRUCTS[self.store.types[r]][0] for r in self.out_roots]
            self.params_lean = params_lean; self.rty = tys[0] if len(tys) == 1 else " × ".join("(%s)" % t for t in tys)
            return self
        for p in sig.params:
            if p["name"] in self.alias_set:
                self.rootmap[p["name"]] = "this"
                if not done_alias: params_lean.append((p["name"], p["ctype"])); done_alias = True
                continue
            if p["ctype"] is None: raise TranslateError("unsupported parameter type %s in %s" % (p["qt"], self.lean_name))
            self.rootmap[p["name"]] = p["name"]
            if p["ref"] and not p["const"] and p["ctype"] not in ("uint", "bool"):
                self.out_roots.append(p["name"])
                if self.u.free_out_only(sig.name, p["name"]) and not sig.is_method:
                    self.store.declare(p["name"], p["ctype"]); continue
            self.store.declare(p["name"], p["ctype"], p["name"])
            params_lean.append((p["name"], p["ctype"]))
        self.final = None
        body = body_of(sig.decl)
        self.stmts(body.get("inner", []), None)
        if not getattr(self, "done_final", False):
            if self.final is None: self.final = self.ret_expr(None)
            self.lines.append(self.final)
        # return type
        if sig.ret == "bool": rty = "Bool"
        else:
            tys = [STRUCTS[self.store.types[r]][0] for r in self.out_roots]
            rty = tys[0] if len(tys) == 1 else " × ".join("(%s)" % t for t in tys)
        self.params_lean = params_lean; self.rty = rty
        return self

class Unit:
    """a set of C++ sources from which functions are pulled on demand"""
    def __init__(self, repo):
        self.repo = repo; self.decls = {}; self.free = {}; self.done = {}; self.order = []; self.pending = []
        self.out_only = {}; self.curve_b_users = set()
    def add_source(self, relpath, filt):
        for o in load_ast(self.repo, relpath, filt):
            self.index(o)
    def index(self, o, cls=None):
        k = o.get("kind")
        if k in ("CXXRecordDecl", "ClassTemplateSpecializationDecl", "NamespaceDecl", "ClassTemplateDecl", "LinkageSpecDecl", "TranslationUnitDecl"):
            name = o.get("name")
            c = cls
            if k == "CXXRecordDecl" and name in ("Fq2", "Fq6", "Fq12"): c = name
            if k == "ClassTemplateSpecializationDecl" and name in ("Projective", "Affine"):
                targs = [a for a in o.get("inner", []) if a.get("kind") == "TemplateArgument"]
                if targs and "type" in targs[0]:
                    b = norm_type(targs[0]["type"]["qualType"])
                    if b in ("Fq", "Fq2"): c = "%s<%s>" % (name, b)
            for ch in o.get("inner", []): self.index(ch, c)
            return
        if k == "CXXMethodDecl":
            owner = cls
            if owner is None:
                # out-of-line definition: find the class from the parent declaration context id is not in JSON;
                # clang prints `parentDeclContextId`; we resolve via previously indexed in-class declarations
                pid = o.get("parentDeclContextId")
                owner = self.ctx.get(pid) if hasattr(self, "ctx") else None
            if owner is None: return
            pts = [norm_type(c["type"]["qualType"]) for c in o.get("inner", []) if c.get("kind") == "ParmVarDecl"]
            key = (owner, o["name"], len(pts), okind(owner, o["name"], pts))
            if body_of(o) is not None or key not in self.decls:
                self.decls[key] = (o, "const" in o["type"]["qualType"].split(")")[-1])
            return
        if k == "FunctionDecl":
            if body_of(o) is not None: self.free[o["name"]] = o
            return
        if k == "FunctionTemplateDecl":
            for ch in o.get("inner", []):
                if ch.get("kind") == "FunctionDecl":
                    targs = [a.get("value") for a in ch.get("inner", []) if a.get("kind") == "TemplateArgument"]
                    if not hasattr(self, "free_spec"): self.free_spec = {}
                    self.free_spec[ch.get("id")] = (o.get("name"), targs)
                else:
                    self.index(ch, cls)
    def index_ctx(self, o, cls=None):
        """record ids of record decls so out-of-line methods can find their class"""
        if not hasattr(self, "ctx"): self.ctx = {}
        k = o.get("kind")
        if k == "CXXRecordDecl" and o.get("name") in ("Fq2", "Fq6", "Fq12", "G1", "G2"):
            self.ctx[o["id"]] = ALIASES.get(o["name"], o["name"])
        if k == "ClassTemplateSpecializationDecl" and o.get("name") in ("Projective", "Affine"):
            targs = [a for a in o.get("inner", []) if a.get("kind") == "TemplateArgument"]
            if targs and "type" in targs[0]:
                b = norm_type(targs[0]["type"]["qualType"])
                if b in ("Fq", "Fq2"): self.ctx[o["id"]] = "%s<%s>" % (o["name"], b)
        for ch in o.get("inner", []): self.index_ctx(ch, cls)

    def sig(self, cls, method, nargs, kind=""):
        key = (cls, method, nargs, kind)
        if key not in self.decls:
            raise TranslateError("no definition found for %s::%s/%d" % (cls, method, nargs))
        decl, is_const = self.decls[key]
        if body_of(decl) is None: raise TranslateError("%s::%s has no body in the translated sources" % (cls, method))
        ret = "bool" if decl["type"]["qualType"].startswith("bool") else "void"
        return Sig(cls, method, parse_params(decl), ret, True, decl, is_const)
    def free_sig(self, name):
        if name not in self.free: raise TranslateError("no definition found for function %s" % name)
        decl = self.free[name]
        ret = "bool" if decl["type"]["qualType"].startswith("bool") else "void"
        return Sig(None, name, parse_params(decl), ret, False, decl)
    def free_out_only(self, fname, pname):
        return (fname, pname) in self.out_only

    def lean_name(self, cls, method, alias, kind=""):
        n = "%s.%s%s" % (LEAN_NS[cls], method, kind)
        if alias: n += "_o" + "".join(alias)
        return n
    def need(self, cls, method, alias=(), nargs=None, kind=""):
        if nargs is None:
            cands = [k for k in self.decls if k[0] == cls and k[1] == method and k[3] == kind]
            if not cands: raise TranslateError("no definition found for %s::%s" % (cls, method))
            nargs = cands[0][2]
        name = self.lean_name(cls, method, alias, kind)
        key = ("m", cls, method, nargs, tuple(alias), kind)
        if key not in self.done and key not in self.pending:
            self.pending.append(key); self.translate(key)
        return name
    def need_free(self, fname, alias=()):
        key = ("f", fname) if not alias else ("f", fname, tuple(alias))
        if key not in self.done and key not in self.pending:
            self.pending.append(key); self.translate(key)
        return fname + ("_o" + "".join(alias) if alias else "")
    def translate(self, key):
        if key[0] == "m":
            _, cls, method, nargs, alias, kind = key
            sig = self.sig(cls, method, nargs, kind)
            t = FnTranslator(self, sig, alias, self.lean_name(cls, method, alias, kind)).run()
        else:
            sig = self.free_sig(key[1])
            al = key[2] if len(key) > 2 else ()
            t = FnTranslator(self, sig, al, key[1] + ("_o" + "".join(al) if al else "")).run()
        self.done[key] = t; self.order.append(key)
        self.pending.remove(key)

    def all_variants(self, cls, method):
        """translate the method under every alias pattern its signature permits"""
        cands = [k for k in self.decls if k[0] == cls and k[1] == method]
        if not cands: raise TranslateError("no definition found for %s::%s" % (cls, method))
        names = []
        for (_, _, nargs, kind) in sorted(cands, key=lambda k: (k[2], k[3])):
            sig = self.sig(cls, method, nargs, kind)
            al = sig.aliasable()
            for r in range(0, len(al) + 1):
                for sub in itertools.combinations(al, r):
                    try:
                        names.append((self.need(cls, method, sub, nargs, kind), sub, al, None))
                    except TranslateError as e:
                        # the variant cannot be given a meaning (e.g. the aliasing makes a callee's
                        # __restrict contract false): recorded, reported by the C18 check
                        self.pending = [k for k in self.pending if k in self.done]
                        if not sub: raise
                        names.append((self.lean_name(cls, method, sub, kind), sub, al, str(e)))
        return names

    def classes_closure(self):
        """required type classes per function, closed over callees"""
        name_of = {}
        for key, t in self.done.items(): name_of[t.lean_name] = t
        changed = True
        while changed:
            changed = False
            for t in self.done.values():
                for c in t.calls:
                    base = name_of.get(c)
                    if base is not None and not base.classes <= t.classes:
                        t.classes |= base.classes; changed = True

    def emit(self, namespace="Jedi.Gen"):
        self.classes_closure()
        out = []
        for key in self.order:
            t = self.done[key]
            binders = " ".join(b for (c, b) in CLASS_BINDERS if c in t.classes)
            uses_b = any("curve_b" in l for l in t.lines)
            params = " ".join("(%s : %s)" % (n, STRUCTS[ct][0]) for (n, ct) in t.params_lean)
            cb = ""
            if uses_b or any(self.uses_curve_b(c) for c in t.calls):
                self.curve_b_users.add(t.lean_name)
            out.append((t, binders, params))
        # curve_b parameter threading: functions that (transitively) mention curve_b get it as first explicit argument
        text = []
        for (t, binders, params) in out:
            cbparam = ""
            lines = t.lines
            if t.lean_name in self.curve_b_users:
                bt = STRUCTS[[ct for (_, ct) in t.params_lean if ct.startswith(("Affine", "Projective"))][0]][1][0][1]
                cbparam = "(curve_b : %s) " % STRUCTS[bt][0]
                users = sorted(self.curve_b_users, key=len, reverse=True)
                newl = []
                for l in lines:
                    for uname in users:
                        if uname != t.lean_name: l = re.sub(r"(?<![\w.])%s(?![\w.])" % re.escape(uname), uname + " curve_b", l)
                    newl.append(l)
                lines = newl
            hdr = "def %s {F : Type} %s %s%s : %s :=" % (t.lean_name, binders, cbparam, params, t.rty)
            text.append(re.sub(r"\s+", " ", hdr).replace(" :=", " :="))
            text += ["  " + l for l in lines]
            text.append("")
        return "\n".join(text)
    def uses_curve_b(self, cname):
        for t in self.done.values():
            if t.lean_name == cname:
                return any("curve_b" in l for l in t.lines) or any(self.uses_curve_b(c) for c in t.calls if c != cname)
        return False

# (class, method) -> Spec expression over the parameter names (hand-written: this is the specification side)
SPEC_OF = {
    ("Fq2", "copy"): "{a}", ("Fq2", "add"): "{a} + {b}", ("Fq2", "subtract"): "{a} - {b}", ("Fq2", "multiply2"): "{a} + {a}",
    ("Fq2", "negate"): "-{a}", ("Fq2", "multiply"): "{a} * {b}", ("Fq2", "square"): "{a} * {a}",
    ("Fq2", "multiply_by_nonresidue"): "Q2.mulXi {a}",
    ("Fq6", "copy"): "{a}", ("Fq6", "add"): "{a} + {b}", ("Fq6", "subtract"): "{a} - {b}", ("Fq6", "multiply2"): "{a} + {a}",
    ("Fq6", "negate"): "-{a}", ("Fq6", "multiply"): "{a} * {b}", ("Fq6", "square"): "{a} * {a}",
    ("Fq6", "multiply_by_nonresidue"): "Q6.mulV {a}",
    ("Fq6", "multiply_by_c1"): "{a} * (⟨0, {c1}, 0⟩ : Q6 R)", ("Fq6", "multiply_by_c01"): "{a} * (⟨{c0}, {c1}, 0⟩ : Q6 R)",
    ("Fq12", "copy"): "{a}", ("Fq12", "add"): "{a} + {b}", ("Fq12", "subtract"): "{a} - {b}", ("Fq12", "multiply2"): "{a} + {a}",
    ("Fq12", "negate"): "-{a}", ("Fq12", "multiply"): "{a} * {b}", ("Fq12", "square"): "{a} * {a}",
    ("Fq12", "conjugate"): "Q12.conj {a}",
    ("Fq12", "multiply_by_c014"): "{a} * (⟨⟨{c0}, {c1}, 0⟩, ⟨0, {c4}, 0⟩⟩ : Q12 R)",
}

def emit_theorems(u, table):
    """(S) every variant with a Spec entry equals the Spec expression; (A) every alias variant equals
    the all-distinct variant (property C18).  Returns (lean text, list of theorem records)."""
    out = []; recs = []
    by_name = {t.lean_name: t for t in u.done.values()}
    level = {"Fq2": 0, "Fq6": 1, "Fq12": 2}
    rows = sorted([r for r in table if r[5] is None], key=lambda r: (level.get(r[3], 9),))
    for (name, sub, al, cls, m, err) in rows:
        t = by_name[name]
        lt = STRUCTS[cls][0].replace(" F", " R")
        params = " ".join("(%s : %s)" % (n, STRUCTS[ct][0].replace(" F", " R").replace("F", "R") if ct != "Fq" else "(%s : R)" % n) for (n, ct) in t.params_lean)
        params = " ".join("(%s : %s)" % (n, "R" if ct == "Fq" else STRUCTS[ct][0].replace(" F", " R")) for (n, ct) in t.params_lean)
        args = " ".join(n for (n, _) in t.params_lean)
        if (cls, m) in SPEC_OF:
            env = {n: n for (n, _) in t.params_lean}
            for a in sub: env[a] = sub[0]
            spec = SPEC_OF[(cls, m)].format(**env)
            out.append("@[tower_spec] theorem %s_spec {R : Type} [CommRing R] %s : %s %s = %s := by" % (name, params, name, args, spec))
            out.append("  simp only [%s, tower_spec] <;> first | rfl | (ext1 <;> simp [Q2.mulXi_eq, Q6.mulV_eq] <;> ring1) | (ext <;> simp [Q2.mulXi_eq, Q6.mulV_eq, Q2.xi, Q6.v] <;> ring1)" % name)
            out.append("")
            recs.append({"theorem": "Jedi.Gen.%s_spec" % name, "kind": "spec", "class": cls, "method": m, "alias": list(sub)})
    for (name, sub, al, cls, m, err) in rows:
        if not sub: continue
        t = by_name[name]; base = u.lean_name(cls, m, ())
        bt = by_name[base]
        need = bt.classes | t.classes
        params = " ".join("(%s : %s)" % (n, "R" if ct == "Fq" else ("Nat" if ct == "uint" else STRUCTS[ct][0].replace(" F", " R"))) for (n, ct) in t.params_lean)
        args = " ".join(n for (n, _) in t.params_lean)
        bargs = " ".join((sub[0] if n in sub else n) for (n, _) in bt.params_lean)
        extra = ""
        if "Inv" in need: extra += " [Inv R]"
        if "DecEq" in need: extra += " [DecidableEq R]"
        if "Consts" in need: extra += " [TowerConsts R]"
        tag = "" if (cls, m) in SPEC_OF else "@[tower_alias] "
        out.append("%stheorem %s_alias {R : Type} [CommRing R]%s %s : %s %s = %s %s := by" % (tag, name, extra, params, name, args, base, bargs))
        if (cls, m) in SPEC_OF:
            out.append("  rw [%s_spec, %s_spec]" % (name, base))
        else:
            out.append("  simp only [%s, %s, tower_spec, tower_alias]" % (name, base))
        out.append("")
        recs.append({"theorem": "Jedi.Gen.%s_alias" % name, "kind": "alias", "class": cls, "method": m, "alias": list(sub)})
    return "\n".join(out), recs

def write_if_changed(path, text):
    os.makedirs(os.path.dirname(path), exist_ok=True)
    old = open(path).read() if os.path.exists(path) else None
    if old != text:
        with open(path, "w") as f: f.write(text)
    return old != text

HEADER = """/- GENERATED by translate/cxx2lean.py from /repo's working tree (%s); do not edit.
Each `def` is the SSA-over-locations translation of one C++ function under one alias pattern
(`_oa` = output object is parameter `a`, `_ob`, `_oab`, none = all objects distinct). -/
import JediVerif.Impl.Types
%s
set_option linter.unusedVariables false
namespace Jedi.Gen

"""

def gen_tower(repo, outdir):
    u = Unit(repo)
    for (src, filt) in (("src/bls12_381/fq2.cpp", NS + "Fq2"), ("src/bls12_381/fq6.cpp", NS + "Fq6"),
                        ("src/bls12_381/fq12.cpp", NS + "Fq12"), ("src/bls12_381/fq12_cyclotomic.cpp", NS + "Fq12")):
        objs = load_ast(repo, src, filt)
        for o in objs: u.index_ctx(o)
        for o in objs: u.index(o)
    table = []   # (lean name, alias subset, aliasable params, class, method)
    plan = {
        "Fq2": ["is_zero", "copy", "add", "multiply2", "subtract", "negate", "inverse", "frobenius_map", "multiply", "square",
                "multiply_by_nonresidue", "norm", "equal"],
        "Fq6": ["is_zero", "copy", "add", "multiply2", "subtract", "negate", "inverse", "frobenius_map", "multiply", "square",
                "multiply_by_nonresidue", "multiply_by_c1", "multiply_by_c01", "equal"],
        "Fq12": ["is_zero", "copy", "add", "multiply2", "subtract", "negate", "inverse", "frobenius_map", "multiply", "square",
                 "multiply_by_c014", "conjugate", "square_cyclotomic", "map_to_cyclotomic", "equal"],
    }
    for cls, methods in plan.items():
        for m in methods:
            for (name, sub, al, err) in u.all_variants(cls, m):
                table.append((name, sub, al, cls, m, err))
    text = HEADER % ("fq2.cpp, fq6.cpp, fq12.cpp, fq12_cyclotomic.cpp", "") + u.emit() + "\nend Jedi.Gen\n"
    changed = write_if_changed(os.path.join(outdir, "TowerGen.lean"), text)
    thm_text, recs = emit_theorems(u, table)
    thm = ("/- GENERATED by translate/cxx2lean.py; do not edit.  Statements: every translated variant equals its\n"
           "Spec expression (table SPEC_OF in the translator) and every alias variant equals the all-distinct one. -/\n"
           "import JediVerif.Gen.TowerGen\nimport JediVerif.Proofs.TowerRing\nimport JediVerif.Proofs.Attr\n"
           "set_option linter.unusedVariables false\nset_option linter.unnecessarySeqFocus false\nset_option linter.unusedSimpArgs false\nnamespace Jedi.Gen\nopen Jedi\n\n" + thm_text + "\nend Jedi.Gen\n")
    changed |= write_if_changed(os.path.join(outdir, "TowerThms.lean"), thm)
    for r in table:
        if r[5]: recs.append({"theorem": "Jedi.Gen.%s_alias" % r[0], "kind": "alias", "class": r[3], "method": r[4], "alias": list(r[1]), "untranslatable": r[5]})
    with open(os.path.join(outdir, "tower_theorems.json"), "w") as f:
        json.dump(recs, f, indent=1)
    return u, table, changed

FORCE_TU = """#include "bls12_381/curve.hpp"
#include "bls12_381/pairing.hpp"
namespace embedded_pairing::bls12_381 {
    template struct Projective<Fq>;
    template struct Projective<Fq2>;
    template struct Affine<Fq, Fr, g1_b_coeff_var>;
    template struct Affine<Fq2, Fr, g2_b_coeff_var>;
    void jedi_verif_force(G1& a, const G1Affine& b, G2& c, const G2Affine& d) { a.add(a, b); a.from_affine(b); c.add(c, d); c.from_affine(d); }
}
"""

def gen_curve(repo, outdir):
    import tempfile, shutil
    tmp = tempfile.mkdtemp(prefix="jedi_cxx2lean_")
    try:
        src = os.path.join(tmp, "force.cpp")
        with open(src, "w") as f: f.write(FORCE_TU)
        u = Unit(repo)
        objs = []
        for filt in (NS + "Projective", NS + "Affine"):
            cmd = ["clang++-14", "-std=gnu++17", "-I", os.path.join(repo, "include"), "-fsyntax-only", "-Xclang", "-ast-dump=json",
                   "-Xclang", "-ast-dump-filter=" + filt, src]
            r = subprocess.run(cmd, capture_output=True, text=True)
            if r.returncode != 0: raise TranslateError("clang failed on curve.hpp: " + r.stderr[:2000])
            txt = r.stdout; dec = json.JSONDecoder(); i = 0
            while i < len(txt):
                while i < len(txt) and txt[i] in " \n\r\t": i += 1
                if i >= len(txt): break
                o, j = dec.raw_decode(txt, i); objs.append(o); i = j
        # the tower is needed for the Fq2 instantiation's callees
        for (s_, filt) in (("src/bls12_381/fq2.cpp", NS + "Fq2"),):
            objs += load_ast(repo, s_, filt)
    finally:
        shutil.rmtree(tmp, ignore_errors=True)
    for o in objs: u.index_ctx(o)
    for o in objs: u.index(o)
    table = []
    plan = {}
    for base in ("Fq", "Fq2"):
        plan["Projective<%s>" % base] = ["is_zero", "is_normalized", "equal", "multiply2", "add", "negate", "from_affine"]
        plan["Affine<%s>" % base] = ["is_zero", "negate", "from_projective", "is_on_curve", "equal"]
    for cls, methods in plan.items():
        for m in methods:
            for (name, sub, al, err) in u.all_variants(cls, m):
                table.append((name, sub, al, cls, m, err))
    # keep only curve-level functions in this file; tower callees live in TowerGen
    keep = [k for k in u.order if k[0] == "m" and (k[1].startswith("Projective") or k[1].startswith("Affine"))]
    u.order = keep
    text = HEADER % ("curve.hpp, both instantiations", "import JediVerif.Gen.TowerGen") + u.emit() + "\nend Jedi.Gen\n"
    changed = write_if_changed(os.path.join(outdir, "CurveGen.lean"), text)
    recs = [{"name": "Jedi.Gen." + t[0], "class": t[3], "method": t[4], "alias": list(t[1]), "untranslatable": t[5]} for t in table]
    with open(os.path.join(outdir, "curve_functions.json"), "w") as f: json.dump(recs, f, indent=1)
    return u, table, changed

def gen_pairing(repo, outdir):
    u = Unit(repo)
    objs = []
    # one dump of the whole translation unit, so that declaration ids (template specializations!) are consistent
    objs += load_ast(repo, "src/bls12_381/pairing.cpp", None)
    for (s_, filt) in (("src/bls12_381/fq2.cpp", NS + "Fq2"), ("src/bls12_381/fq6.cpp", NS + "Fq6"), ("src/bls12_381/fq12.cpp", NS + "Fq12"),
                       ("src/bls12_381/fq12_cyclotomic.cpp", NS + "Fq12")):
        objs += load_ast(repo, s_, filt)
    for o in objs: u.index_ctx(o)
    for o in objs: u.index(o)
    u.out_only = {("miller_doubling_step", "result"), ("miller_addition_step", "result"), ("final_exponentiation", "result")}
    names = []
    for fn in ("miller_doubling_step", "miller_addition_step", "ell", "final_exponentiation"):
        names.append(u.need_free(fn))
    # pairing() calls final_exponentiation(result, result)
    u.out_only = {("miller_doubling_step", "result"), ("miller_addition_step", "result")}
    names.append(u.need_free("final_exponentiation", ("a",)))
    u.order = [k for k in u.order if k[0] == "f"]
    text = HEADER % ("pairing.cpp: miller_doubling_step, miller_addition_step, ell, final_exponentiation", "import JediVerif.Gen.TowerGen\nimport JediVerif.Impl.ExpByX") + u.emit() + "\nend Jedi.Gen\n"
    changed = write_if_changed(os.path.join(outdir, "PairingGen.lean"), text)
    return u, names, changed

if __name__ == "__main__":
    repo = sys.argv[1] if len(sys.argv) > 1 else "/repo"
    outdir = sys.argv[2] if len(sys.argv) > 2 else os.path.join(VERIF, "lean/JediVerif/Gen")
    try:
        u, table, changed = gen_tower(repo, outdir)
    except TranslateError as e:
        print("cxx2lean: TRANSLATION FAILED:", e); sys.exit(2)
    print("cxx2lean: %d functions (%d variants listed) -> %s/TowerGen.lean%s" % (len(u.done), len(table), outdir, "" if changed else " (unchanged)"))
    try:
        u2, table2, changed2 = gen_curve(repo, outdir)
    except TranslateError as e:
        print("cxx2lean: TRANSLATION FAILED (curve):", e); sys.exit(2)
    print("cxx2lean: curve: %d functions -> %s/CurveGen.lean%s" % (len(u2.order), outdir, "" if changed2 else " (unchanged)"))
    try:
        u3, names3, changed3 = gen_pairing(repo, outdir)
    except TranslateError as e:
        print("cxx2lean: TRANSLATION FAILED (pairing):", e); sys.exit(2)
    print("cxx2lean: pairing: %d functions -> %s/PairingGen.lean%s" % (len(u3.order), outdir, "" if changed3 else " (unchanged)"))
    table = table + table2
    for t in table:
        if t[5]: sys.stdout.write("cxx2lean: UNTRANSLATABLE-VARIANT %s: %s\n" % (t[0], t[5]))
