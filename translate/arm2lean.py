#!/usr/bin/env python3
"""arm2lean: the AArch64 and ARMv6-M assembly sources of the core library -> Lean programs for the
models of JediVerif/Impl/A64.lean and JediVerif/Impl/Thumb1.lean.

usage: arm2lean.py [repo] [--no-crosscheck]
       (default repo: /repo; outputs <verif>/lean/JediVerif/Gen/AsmA64.lean and Gen/AsmV6M.lean)

Reads, from the CURRENT working tree,
  <repo>/src/core/arch/aarch64/*.s     (GNU as syntax for AArch64, comments `//`)
  <repo>/src/core/arch/armv6_m/*.s     (GNU as syntax for ARM, `.thumb`, DIVIDED syntax, comments `@`)
  <repo>/src/core/arch/armv6_m/fp.cpp  (the C++ function the ARMv6-M assembly calls with `bl`)
  <repo>/include/core/arch/{aarch64,armv6_m}/*.hpp  (extern "C" prototypes of the exported routines)

  * comments are removed; `.macro name a, b, …` / `.endm` definitions are recorded and every invocation
    is expanded (positional arguments separated by commas or blanks, `\\arg` substitution, macros may
    invoke macros); `\\@`, default values, `:req`/`:vararg`, nested definitions are rejected;
  * the directives .globl/.global/.type/.text/.size/.align/.p2align/.balign (and `.thumb` in the ARM
    files) are accepted; any other directive is an error -- in particular `.syntax unified`, `.arm`,
    `.code`, because they would change what the mnemonics of the ARMv6-M files mean;
  * every instruction is parsed into the `Instr` type of the model for its architecture:
      - AArch64: 64-bit (X register) forms only; aliases (cmp, cmn, neg, mov, cset, csetm, tst, mul) are
        resolved to their base instruction (SUBS XZR…, ORR Xd, XZR, Xm / ADD Xd, SP, #0, CSINC…, MADD … XZR);
        register 31 is XZR or SP as the instruction form dictates, a register that the form cannot
        encode is an error; shifted/extended operands, W registers, SIMD, bitmask immediates: error;
        CONSTRAINED UNPREDICTABLE forms (ldp with equal targets, write-back to a transferred register): error;
      - ARMv6-M: the sources use the divided Thumb syntax (no `.syntax unified`): the 16-bit
        data-processing mnemonics are written without `s` but the only encodings that exist set the
        flags (GNU as, gas/config/tc-arm.c, non-unified branch): `add Rd, Rn, Rm` (low registers) =
        ADDS, `sub` = SUBS, `adc` = ADCS, `sbc` = SBCS, `and/orr/eor` = ANDS/ORRS/EORS, `mul` = MULS,
        `lsl/lsr #imm` = LSLS/LSRS, `neg` = RSBS #0; `mov` with a high register = MOV (no flags); `mov`
        of two LOW registers is encoded by GNU as as ADDS Rd, Rm, #0 (flags written) whereas an
        assembler using the ARMv6 MOV encoding writes no flag: the model instruction `movLo` makes the
        flags unknown, so neither choice is silently assumed; `add Rd, sp, #imm`, `add/sub sp, sp, #imm`,
        `uxth`, `ldr/str [Rn|sp, #imm]`, `ldm/stm Rn!, {…}`, `push/pop`, `bx`, and `bl` to the one C++
        function of fp.cpp (whose body is checked to be `res_val->reduce(*a_val, *p_val)`);
        operand ranges and register classes of the 16-bit encodings are checked;
  * a routine is the code from a `.globl` label up to the next `.globl` label; it must end in an
    unconditional control transfer, all its branches must stay inside it; labels become indices;
  * every exported routine must have an extern "C" prototype in the architecture's headers and
    vice versa (the C++ function of fp.cpp excepted); the prototypes are emitted as `signatures`.

Anything that is not understood terminates the translator with a non-zero exit status and a message
`file:line: …`.  Nothing is guessed.

Cross-checks (default; skipped with a note if llvm-mc / llvm-objdump are not installed):
  * AArch64: each file is assembled with `llvm-mc --triple=aarch64 -filetype=obj` and disassembled with
    `llvm-objdump -d -M no-aliases`; the instruction sequence must be, instruction for instruction,
    the one this translator produced (operation, operands, addressing mode, branch target), in two
    ways: (a) the disassembly text, read by the same operand parser, gives the same instruction, and
    (b) the 32-bit word llvm-mc emitted equals the encoding `a64_encode` computes from the decoded
    instruction (written from the Arm ARM's encoding diagrams, independent of the text parser).
  * ARMv6-M: llvm-mc cannot assemble the files as written (its ARM parser rejects divided-syntax
    `adc r3, r3, r5`, `lsr r4, r4, #16`, …: "no flag-preserving variant of this instruction available" /
    "instruction requires: thumb2"), and no GNU assembler for ARM is installed.  Therefore only an
    ENCODABILITY check is made: the translator prints the instructions it decoded in unified syntax,
    assembles THAT with `llvm-mc --triple=thumbv6m-none-eabi`, and the disassembly must give back the
    same instructions, each a 16-bit encoding (`bl`: 32-bit) equal to what `t_encode` computes from the
    decoded instruction (ARMv6-M ARM encoding tables).  This shows that every decoded form exists in
    ARMv6-M with these operands and that the model's operand roles are those of the encoding; it does
    not check the divided-syntax reading of the source text (documented above, from GNU as's source).

The outputs are deterministic and rewritten only if their content changes.
"""
import os, re, shutil, subprocess, sys, tempfile

HERE = os.path.dirname(os.path.abspath(__file__))
VERIF = os.path.dirname(HERE)
sys.path.insert(0, HERE)
from asm2lean import AsmError, die, eval_expr, split_top      # expression evaluator, macro-argument splitter

A64_DIR = "src/core/arch/aarch64"
V6M_DIR = "src/core/arch/armv6_m"
A64_INC = "include/core/arch/aarch64"
V6M_INC = "include/core/arch/armv6_m"
REDUCE_SYM = "embedded_pairing_core_arch_armv6_m_fpbase_384_reduce"
CHUNK = 200

LABEL_RE = r"[A-Za-z_.][A-Za-z0-9_.$]*"


def split_ops(text, where):
    """split an operand list at top-level commas (outside [] {} ())"""
    out, cur, depth = [], "", 0
    for ch in text:
        if ch in "[{(":
            depth += 1; cur += ch
        elif ch in "]})":
            depth -= 1
            if depth < 0: die(where, "unbalanced bracket in '%s'" % text)
            cur += ch
        elif ch == "," and depth == 0:
            out.append(cur.strip()); cur = ""
        else:
            cur += ch
    if depth != 0: die(where, "unbalanced bracket in '%s'" % text)
    if cur.strip() or out: out.append(cur.strip())
    for o in out:
        if not o: die(where, "empty operand in '%s'" % text)
    return out


def imm_of(t, where):
    """'#expr' or 'expr' -> int"""
    t = t.strip()
    if t.startswith("#"): t = t[1:]
    if not t.strip(): die(where, "empty immediate")
    return eval_expr(t, where)


# ============================================================================= AArch64
A64_COND = {"eq": "eq", "ne": "ne", "cs": "cs", "hs": "cs", "cc": "cc", "lo": "cc", "mi": "mi", "pl": "pl",
            "vs": "vs", "vc": "vc", "hi": "hi", "ls": "ls", "ge": "ge", "lt": "lt", "gt": "gt", "le": "le",
            "al": "al", "nv": "nv"}
A64_INV = {"eq": "ne", "ne": "eq", "cs": "cc", "cc": "cs", "mi": "pl", "pl": "mi", "vs": "vc", "vc": "vs",
           "hi": "ls", "ls": "hi", "ge": "lt", "lt": "ge", "gt": "le", "le": "gt"}


def a64_operand(t, where):
    """-> ('x', n) | ('zr',) | ('sp',) | ('imm', v) | ('mem', base_operand, imm|None, writeback) | ('cond', c) | ('sym', name)"""
    t = t.strip()
    tl = t.lower()
    m = re.fullmatch(r"x(\d+)", tl)
    if m:
        n = int(m.group(1))
        if n > 30 or (len(m.group(1)) > 1 and m.group(1)[0] == "0"): die(where, "unknown register '%s'" % t)
        return ("x", n)
    if tl == "xzr": return ("zr",)
    if tl == "sp": return ("sp",)
    if re.fullmatch(r"w(\d+|zr|sp)", tl): die(where, "32-bit register '%s' not supported by the model" % t)
    if re.fullmatch(r"[vqdshb]\d+(\..*)?", tl): die(where, "SIMD/FP register '%s' not supported by the model" % t)
    if t.startswith("["):
        m = re.fullmatch(r"\[\s*([^,\]]+?)\s*(?:,\s*([^\]]+?)\s*)?\](\s*!)?", t)
        if not m: die(where, "memory operand '%s' not understood" % t)
        base = a64_operand(m.group(1), where)
        if base[0] not in ("x", "sp"): die(where, "base of '%s' must be Xn or SP" % t)
        imm = None
        if m.group(2) is not None:
            if not m.group(2).startswith("#") and re.match(r"[xXwW]", m.group(2)): die(where, "register-offset addressing '%s' not supported" % t)
            imm = imm_of(m.group(2), where)
        return ("mem", base, imm, bool(m.group(3)))
    if t.startswith("#"): return ("imm", imm_of(t, where))
    if tl in A64_COND: return ("cond", A64_COND[tl])
    if re.fullmatch(r"[-+]?(0[xX][0-9a-fA-F]+|\d+)", t): return ("imm", imm_of(t, where))
    if re.fullmatch(LABEL_RE, t): return ("sym", t)
    die(where, "operand '%s' not understood" % t)


def a64_parse(mn, optext, where):
    """-> instruction tuple; branch targets stay symbolic ('sym', name)"""
    mn = mn.lower()
    ops = [a64_operand(x, where) for x in split_ops(optext, where)] if optext.strip() else []

    def want(*ns):
        if len(ops) not in ns: die(where, "'%s' expects %s operand(s), got %d" % (mn, "/".join(map(str, ns)), len(ops)))
    def rz(o):
        if o[0] == "x" or o[0] == "zr": return o
        die(where, "'%s': operand must be Xn or XZR here (register 31 is XZR in this form)" % mn)
    def rsp(o):
        if o[0] == "x" or o[0] == "sp": return o
        die(where, "'%s': operand must be Xn or SP here (register 31 is SP in this form)" % mn)
    def cond(o):
        if o[0] != "cond": die(where, "'%s' needs a condition code" % mn)
        return o[1]
    def sym(o):
        if o[0] != "sym": die(where, "'%s' needs a label operand" % mn)
        return o

    def addsub(op, sf, d, n, m):
        if m[0] == "imm":
            v = m[1]
            if not (0 <= v < 4096): die(where, "immediate %d of '%s' outside 0..4095 (shifted / negated immediates are not supported)" % (v, mn))
            if sf: return ("addsubsImm", op, rz(d), rsp(n), v)
            return ("addsubImm", op, rsp(d), rsp(n), v)
        return ("addsubReg", op, sf, rz(d), rz(n), rz(m))

    if mn in ("add", "adds", "sub", "subs"):
        want(3); return addsub(mn[:3], mn.endswith("s") and len(mn) == 4, ops[0], ops[1], ops[2])
    if mn in ("cmp", "cmn"):
        want(2); return addsub("sub" if mn == "cmp" else "add", True, ("zr",), ops[0], ops[1])
    if mn in ("neg", "negs"):
        want(2); return addsub("sub", mn == "negs", ops[0], ("zr",), rz(ops[1]))
    if mn in ("adc", "adcs", "sbc", "sbcs"):
        want(3); return ("adcsbc", "add" if mn.startswith("adc") else "sub", mn.endswith("s"), rz(ops[0]), rz(ops[1]), rz(ops[2]))
    if mn == "mul":
        want(3); return ("mul", rz(ops[0]), rz(ops[1]), rz(ops[2]))
    if mn == "madd":
        want(4)
        if ops[3] != ("zr",): die(where, "madd with an accumulator other than xzr is not supported by the model")
        return ("mul", rz(ops[0]), rz(ops[1]), rz(ops[2]))
    if mn == "umulh":
        want(3); return ("umulh", rz(ops[0]), rz(ops[1]), rz(ops[2]))
    if mn in ("csel", "csinc", "csinv", "csneg"):
        want(4); return ("csel", {"csel": "sel", "csinc": "inc", "csinv": "inv", "csneg": "neg"}[mn], rz(ops[0]), rz(ops[1]), rz(ops[2]), cond(ops[3]))
    if mn in ("cset", "csetm"):
        want(2); c = cond(ops[1])
        if c not in A64_INV: die(where, "'%s' with condition %s is not allowed" % (mn, c))
        return ("csel", "inc" if mn == "cset" else "inv", rz(ops[0]), ("zr",), ("zr",), A64_INV[c])
    if mn in ("and", "orr", "eor", "ands"):
        want(3)
        if ops[2][0] == "imm": die(where, "'%s' with a bitmask immediate is not supported by the model" % mn)
        return ("logic", mn, rz(ops[0]), rz(ops[1]), rz(ops[2]))
    if mn == "tst":
        want(2)
        if ops[1][0] == "imm": die(where, "'tst' with a bitmask immediate is not supported by the model")
        return ("logic", "ands", ("zr",), rz(ops[0]), rz(ops[1]))
    if mn == "mov":
        want(2)
        if ops[1][0] == "imm": die(where, "'mov' of an immediate is not supported by the model")
        if ops[0][0] == "sp" or ops[1][0] == "sp": return ("addsubImm", "add", rsp(ops[0]), rsp(ops[1]), 0)
        return ("logic", "orr", rz(ops[0]), ("zr",), rz(ops[1]))
    if mn in ("ldp", "stp", "ldr", "str"):
        pair = mn in ("ldp", "stp")
        nt = 2 if pair else 1
        want(nt + 1, nt + 2)
        ts = [rz(o) for o in ops[:nt]]
        mem = ops[nt]
        if mem[0] == "sym": die(where, "literal / pc-relative '%s' is not supported by the model" % mn)
        if mem[0] != "mem": die(where, "'%s' needs a memory operand" % mn)
        _, base, imm, wb = mem
        if len(ops) == nt + 2:
            if wb or imm is not None: die(where, "post-index form with an offset inside the brackets")
            if ops[nt + 1][0] != "imm": die(where, "post-index amount of '%s' must be an immediate" % mn)
            mode, imm = "post", ops[nt + 1][1]
        elif wb:
            if imm is None: die(where, "pre-index form without an offset")
            mode = "pre"
        else:
            mode, imm = "offset", (0 if imm is None else imm)
        if pair:
            if imm % 8 != 0 or not (-512 <= imm <= 504): die(where, "offset %d of '%s' is not a multiple of 8 in -512..504" % (imm, mn))
            if mn == "ldp" and ts[0] == ts[1]: die(where, "ldp with two equal target registers is CONSTRAINED UNPREDICTABLE")
        else:
            if mode == "offset":
                if imm % 8 != 0 or not (0 <= imm <= 32760): die(where, "offset %d of '%s' is not a multiple of 8 in 0..32760 (unscaled forms are not supported)" % (imm, mn))
            elif not (-256 <= imm <= 255): die(where, "write-back offset %d of '%s' outside -256..255" % (imm, mn))
        if mode != "offset" and base[0] == "x" and base in ts:
            die(where, "'%s' with write-back to a transferred register is CONSTRAINED UNPREDICTABLE" % mn)
        return (mn, mode) + tuple(ts) + (base, imm)
    if mn == "b":
        want(1); return ("b", sym(ops[0]))
    if mn.startswith("b.") and mn[2:] in A64_COND:
        want(1); return ("bcond", A64_COND[mn[2:]], sym(ops[0]))
    if mn in ("cbz", "cbnz"):
        want(2); return ("cbz", mn == "cbnz", rz(ops[0]), sym(ops[1]))
    if mn == "ret":
        want(0, 1)
        if ops:
            if ops[0][0] != "x": die(where, "'ret' needs an X register")
            return ("ret", ops[0][1])
        return ("ret", 30)
    die(where, "instruction '%s' not supported by the model" % mn)


A64_CONDNUM = {"eq": 0, "ne": 1, "cs": 2, "cc": 3, "mi": 4, "pl": 5, "vs": 6, "vc": 7, "hi": 8, "ls": 9, "ge": 10, "lt": 11,
               "gt": 12, "le": 13, "al": 14, "nv": 15}


def a64_encode(ins, idx):
    """the 32-bit A64 encoding of a decoded instruction at instruction index `idx` (Arm ARM C4/C6); written
    from the encoding diagrams, independently of the text parser: used by the cross-check to compare
    with the bytes llvm-mc produced from the source file"""
    def rn(o): return o[1] if o[0] == "x" else 31
    def simm(v, bits):
        if not (-(1 << (bits - 1)) <= v < (1 << (bits - 1))): raise AssertionError("immediate range")
        return v & ((1 << bits) - 1)
    k = ins[0]
    if k == "addsubReg":
        return (1 << 31) | ((ins[1] == "sub") << 30) | (bool(ins[2]) << 29) | (0b01011 << 24) | (rn(ins[5]) << 16) | (rn(ins[4]) << 5) | rn(ins[3])
    if k in ("addsubImm", "addsubsImm"):
        return (1 << 31) | ((ins[1] == "sub") << 30) | ((k == "addsubsImm") << 29) | (0b100010 << 23) | (ins[4] << 10) | (rn(ins[3]) << 5) | rn(ins[2])
    if k == "adcsbc":
        return (1 << 31) | ((ins[1] == "sub") << 30) | (bool(ins[2]) << 29) | (0b11010000 << 21) | (rn(ins[5]) << 16) | (rn(ins[4]) << 5) | rn(ins[3])
    if k == "mul":
        return (0b10011011000 << 21) | (rn(ins[3]) << 16) | (31 << 10) | (rn(ins[2]) << 5) | rn(ins[1])
    if k == "umulh":
        return (0b10011011110 << 21) | (rn(ins[3]) << 16) | (31 << 10) | (rn(ins[2]) << 5) | rn(ins[1])
    if k == "csel":
        op, o2 = {"sel": (0, 0), "inc": (0, 1), "inv": (1, 0), "neg": (1, 1)}[ins[1]]
        return (1 << 31) | (op << 30) | (0b11010100 << 21) | (rn(ins[4]) << 16) | (A64_CONDNUM[ins[5]] << 12) | (o2 << 10) | (rn(ins[3]) << 5) | rn(ins[2])
    if k == "logic":
        opc = {"and": 0, "orr": 1, "eor": 2, "ands": 3}[ins[1]]
        return (1 << 31) | (opc << 29) | (0b01010 << 24) | (rn(ins[4]) << 16) | (rn(ins[3]) << 5) | rn(ins[2])
    if k in ("ldp", "stp"):
        mode = {"post": 0b001, "pre": 0b011, "offset": 0b010}[ins[1]]
        return (0b10 << 30) | (0b101 << 27) | (mode << 23) | ((k == "ldp") << 22) | (simm(ins[5] // 8, 7) << 15) | (rn(ins[3]) << 10) | (rn(ins[4]) << 5) | rn(ins[2])
    if k in ("ldr", "str"):
        opc = 1 if k == "ldr" else 0
        if ins[1] == "offset":
            return (0b11 << 30) | (0b111001 << 24) | (opc << 22) | ((ins[4] // 8) << 10) | (rn(ins[3]) << 5) | rn(ins[2])
        return (0b11 << 30) | (0b111000 << 24) | (opc << 22) | (simm(ins[4], 9) << 12) | ((0b01 if ins[1] == "post" else 0b11) << 10) | (rn(ins[3]) << 5) | rn(ins[2])
    if k == "b": return (0b000101 << 26) | simm(ins[1] - idx, 26)
    if k == "bcond": return (0b01010100 << 24) | (simm(ins[2] - idx, 19) << 5) | A64_CONDNUM[ins[1]]
    if k == "cbz": return (1 << 31) | (0b011010 << 25) | (bool(ins[1]) << 24) | (simm(ins[3] - idx, 19) << 5) | rn(ins[2])
    if k == "ret": return (0b1101011001011111000000 << 10) | (ins[1] << 5)
    raise AssertionError(k)


A64_BRANCHES = {"b": 1, "bcond": 2, "cbz": 3}          # kind -> index of the target in the tuple
A64_ENDS = ("ret", "b")


def a64_lean_op(o):
    if o[0] == "x": return "(.x .x%d)" % o[1]
    if o[0] == "zr": return ".zr"
    if o[0] == "sp": return ".sp"
    raise AssertionError(o)


def lean_int(v): return str(v) if v >= 0 else "(%d)" % v
def lean_bool(b): return "true" if b else "false"


def a64_lean(ins):
    k = ins[0]; L = a64_lean_op
    if k == "addsubReg": return ".addsubReg .%s %s %s %s %s" % (ins[1], lean_bool(ins[2]), L(ins[3]), L(ins[4]), L(ins[5]))
    if k in ("addsubImm", "addsubsImm"): return ".%s .%s %s %s %d" % (k, ins[1], L(ins[2]), L(ins[3]), ins[4])
    if k == "adcsbc": return ".adcsbc .%s %s %s %s %s" % (ins[1], lean_bool(ins[2]), L(ins[3]), L(ins[4]), L(ins[5]))
    if k in ("mul", "umulh"): return ".%s %s %s %s" % (k, L(ins[1]), L(ins[2]), L(ins[3]))
    if k == "csel": return ".csel .%s %s %s %s .%s" % (ins[1], L(ins[2]), L(ins[3]), L(ins[4]), ins[5])
    if k == "logic": return ".logic .%s %s %s %s" % (ins[1], L(ins[2]), L(ins[3]), L(ins[4]))
    if k in ("ldp", "stp"): return ".%s .%s %s %s %s %s" % (k, ins[1], L(ins[2]), L(ins[3]), L(ins[4]), lean_int(ins[5]))
    if k in ("ldr", "str"): return ".%s .%s %s %s %s" % (k, ins[1], L(ins[2]), L(ins[3]), lean_int(ins[4]))
    if k == "b": return ".b %d" % ins[1]
    if k == "bcond": return ".bcond .%s %d" % (ins[1], ins[2])
    if k == "cbz": return ".cbz %s %s %d" % (lean_bool(ins[1]), L(ins[2]), ins[3])
    if k == "ret": return ".ret .x%d" % ins[1]
    raise AssertionError(k)


# ============================================================================= ARMv6-M (Thumb-1)
T_REGS = {("r%d" % i): ("r%d" % i) for i in range(13)}
T_REGS.update({"sp": "sp", "r13": "sp", "lr": "lr", "r14": "lr", "pc": "pc", "r15": "pc"})
T_LOW = {"r%d" % i for i in range(8)}
T_ORDER = ["r%d" % i for i in range(13)] + ["sp", "lr", "pc"]
T_ALU = {"adc": "adcs", "sbc": "sbcs", "and": "ands", "orr": "orrs", "eor": "eors", "mul": "muls"}
T_COMMUTATIVE = {"adcs", "ands", "orrs", "eors", "muls"}


def t_reg(t, where):
    n = t.strip().lower()
    if n not in T_REGS: die(where, "unknown register '%s'" % t)
    return T_REGS[n]


def t_reglist(t, where):
    t = t.strip()
    if not (t.startswith("{") and t.endswith("}")): die(where, "register list expected, got '%s'" % t)
    regs = []
    for part in t[1:-1].split(","):
        part = part.strip()
        if not part: die(where, "empty entry in register list '%s'" % t)
        if "-" in part:
            a, b = [t_reg(x, where) for x in part.split("-", 1)]
            ia, ib = T_ORDER.index(a), T_ORDER.index(b)
            if ia > ib: die(where, "descending range in register list '%s'" % t)
            regs += T_ORDER[ia:ib + 1]
        else:
            regs.append(t_reg(part, where))
    idx = [T_ORDER.index(r) for r in regs]
    if idx != sorted(set(idx)): die(where, "register list '%s' is not strictly ascending" % t)
    if not regs: die(where, "empty register list")
    return regs


def t_parse(mn, optext, where, unified):
    """Thumb-1 instruction -> tuple.  unified=False: divided syntax of the sources (flag-setting
    implied); unified=True: UAL as printed by llvm-objdump (used by the encodability check only)."""
    mn = mn.lower()
    ops = split_ops(optext, where) if optext.strip() else []

    def want(*ns):
        if len(ops) not in ns: die(where, "'%s' expects %s operand(s), got %d" % (mn, "/".join(map(str, ns)), len(ops)))
    def low(r):
        if r not in T_LOW: die(where, "'%s': register %s is not a low register (r0-r7), the 16-bit encoding cannot name it" % (mn, r))
        return r
    def isimm(t): return t.strip().startswith("#")

    def flagged(base):
        """the mnemonic as written for flag-setting `base` in the current syntax"""
        return base + "s" if unified else base

    # ---- three-register / SP arithmetic
    for base in ("add", "sub"):
        if mn == flagged(base) or (unified and mn == base):
            sets = (mn == base + "s") or not unified
            if unified and len(ops) == 2: ops = [ops[0]] + ops                      # `add sp, #96` / `sub sp, #96`
            want(3)
            d, n = t_reg(ops[0], where), t_reg(ops[1], where)
            if isimm(ops[2]):
                v = imm_of(ops[2], where)
                if n == "sp" and d == "sp":
                    if unified and mn != base: die(where, "flag-setting SP arithmetic does not exist")
                    if v % 4 != 0 or not (0 <= v <= 508): die(where, "immediate %d of '%s sp, sp' is not a multiple of 4 in 0..508" % (v, base))
                    return ("incSp" if base == "add" else "decSp", v)
                if n == "sp" and base == "add":
                    if unified and mn != base: die(where, "flag-setting SP arithmetic does not exist")
                    if v % 4 != 0 or not (0 <= v <= 1020): die(where, "immediate %d of 'add Rd, sp' is not a multiple of 4 in 0..1020" % v)
                    return ("addSpImm", low(d), v)
                if unified and mn == "adds" and v == 0:
                    return ("movLo", low(d), low(n))                                  # GNU as's encoding of divided `mov lo, lo`
                die(where, "'%s' with this immediate form is not supported by the model" % mn)
            m = t_reg(ops[2], where)
            if not sets: die(where, "'%s' without flag setting on three registers does not exist in Thumb-1" % mn)
            return ("addsReg" if base == "add" else "subsReg", low(d), low(n), low(m))
    # ---- two-operand data processing
    for base, ual in T_ALU.items():
        if mn == flagged(base):
            want(2, 3)
            rs = [t_reg(o, where) for o in ops]
            if len(rs) == 2: dn, m = rs
            elif rs[0] == rs[1]: dn, m = rs[0], rs[2]
            elif rs[0] == rs[2] and ual in T_COMMUTATIVE: dn, m = rs[0], rs[1]
            else: die(where, "'%s %s': the 16-bit encoding needs the destination to be the first source%s" % (mn, optext.strip(), " (or, for a commutative operation, the second)" if ual in T_COMMUTATIVE else ""))
            return ("alu", ual, low(dn), low(m))
    for base in ("lsl", "lsr"):
        if mn == flagged(base):
            want(3)
            if not isimm(ops[2]): die(where, "register-controlled shift '%s' is not supported by the model" % mn)
            v = imm_of(ops[2], where)
            lo_, hi_ = (1, 31) if base == "lsl" else (1, 32)
            if not (lo_ <= v <= hi_): die(where, "shift amount %d of '%s' outside %d..%d" % (v, mn, lo_, hi_))
            return (base + "sImm", low(t_reg(ops[0], where)), low(t_reg(ops[1], where)), v)
    if (not unified and mn == "neg") or (unified and mn == "rsbs"):
        if unified:
            want(3)
            if imm_of(ops[2], where) != 0: die(where, "rsbs with a non-zero immediate does not exist in Thumb-1")
        else: want(2)
        return ("rsbsZero", low(t_reg(ops[0], where)), low(t_reg(ops[1], where)))
    if mn == "uxth":
        want(2); return ("uxth", low(t_reg(ops[0], where)), low(t_reg(ops[1], where)))
    if mn == "mov":
        want(2)
        if isimm(ops[1]): die(where, "'mov' of an immediate is not supported by the model")
        d, m = t_reg(ops[0], where), t_reg(ops[1], where)
        if "pc" in (d, m): die(where, "'mov' involving pc is not supported by the model")
        if d in T_LOW and m in T_LOW:
            if unified: die(where, "unexpected MOV of two low registers in the encodability check")
            return ("movLo", d, m)
        return ("movHi", d, m)
    if mn in ("ldr", "str"):
        want(2)
        t = low(t_reg(ops[0], where))
        mm = re.fullmatch(r"\[\s*([^,\]]+?)\s*(?:,\s*([^\]]+?)\s*)?\]", ops[1].strip())
        if not mm: die(where, "memory operand '%s' not understood (only [Rn, #imm] is supported)" % ops[1])
        n = t_reg(mm.group(1), where)
        v = 0
        if mm.group(2) is not None:
            if not isimm(mm.group(2)): die(where, "register-offset addressing '%s' is not supported by the model" % ops[1])
            v = imm_of(mm.group(2), where)
        if n == "sp":
            if v % 4 != 0 or not (0 <= v <= 1020): die(where, "offset %d of '%s [sp]' is not a multiple of 4 in 0..1020" % (v, mn))
        else:
            low(n)
            if v % 4 != 0 or not (0 <= v <= 124): die(where, "offset %d of '%s' is not a multiple of 4 in 0..124" % (v, mn))
        return (mn + "Imm", t, n, v)
    if mn in ("ldm", "ldmia", "stm", "stmia"):
        want(2)
        b = ops[0].strip()
        if not b.endswith("!"): die(where, "'%s' without write-back is not supported by the model" % mn)
        n = low(t_reg(b[:-1], where))
        regs = [low(r) for r in t_reglist(ops[1], where)]
        if n in regs: die(where, "'%s' with the base register in the list is not supported by the model" % mn)
        return (mn[:3], n, regs)
    if mn in ("push", "pop"):
        want(1)
        regs = t_reglist(ops[0], where)
        extra = "lr" if mn == "push" else "pc"
        has = extra in regs
        rest = [low(r) for r in regs if r != extra]
        return (mn, rest, has)
    if mn == "bx":
        want(1); r = t_reg(ops[0], where)
        if r == "pc": die(where, "'bx pc' is not supported by the model")
        return ("bx", r)
    if mn == "bl":
        want(1)
        if not re.fullmatch(LABEL_RE, ops[0].strip()): die(where, "'bl' needs a symbol")
        return ("bl", ("sym", ops[0].strip()))
    die(where, "instruction '%s' not supported by the model%s" % (mn, "" if unified else " (divided Thumb syntax)"))


def t_ual(ins):
    """unified-syntax text of a decoded instruction (what the 16-bit encoding is called in UAL)"""
    k = ins[0]
    if k == "addsReg": return "adds %s, %s, %s" % ins[1:]
    if k == "subsReg": return "subs %s, %s, %s" % ins[1:]
    if k == "alu":
        if ins[1] == "muls": return "muls %s, %s, %s" % (ins[2], ins[3], ins[2])
        return "%s %s, %s" % (ins[1], ins[2], ins[3])
    if k == "lslsImm": return "lsls %s, %s, #%d" % ins[1:]
    if k == "lsrsImm": return "lsrs %s, %s, #%d" % ins[1:]
    if k == "rsbsZero": return "rsbs %s, %s, #0" % ins[1:]
    if k == "uxth": return "uxth %s, %s" % ins[1:]
    if k == "movHi": return "mov %s, %s" % ins[1:]
    if k == "movLo": return "adds %s, %s, #0" % ins[1:]
    if k in ("ldrImm", "strImm"): return "%s %s, [%s, #%d]" % (k[:3], ins[1], ins[2], ins[3])
    if k in ("ldm", "stm"): return "%s %s!, {%s}" % (k, ins[1], ", ".join(ins[2]))
    if k == "push": return "push {%s}" % ", ".join(ins[1] + (["lr"] if ins[2] else []))
    if k == "pop": return "pop {%s}" % ", ".join(ins[1] + (["pc"] if ins[2] else []))
    if k == "addSpImm": return "add %s, sp, #%d" % ins[1:]
    if k == "incSp": return "add sp, sp, #%d" % ins[1]
    if k == "decSp": return "sub sp, sp, #%d" % ins[1]
    if k == "bx": return "bx %s" % ins[1]
    if k == "bl": return "bl %s" % ins[2]
    raise AssertionError(k)


def t_lean(ins):
    k = ins[0]
    R = lambda r: "." + r
    RL = lambda rs: "[" + ", ".join(R(r) for r in rs) + "]"
    if k in ("addsReg", "subsReg"): return ".%s %s %s %s" % (k, R(ins[1]), R(ins[2]), R(ins[3]))
    if k == "alu": return ".alu .%s %s %s" % (ins[1], R(ins[2]), R(ins[3]))
    if k in ("lslsImm", "lsrsImm"): return ".%s %s %s %d" % (k, R(ins[1]), R(ins[2]), ins[3])
    if k in ("rsbsZero", "uxth", "movHi", "movLo"): return ".%s %s %s" % (k, R(ins[1]), R(ins[2]))
    if k in ("ldrImm", "strImm"): return ".%s %s %s %d" % (k, R(ins[1]), R(ins[2]), ins[3])
    if k in ("ldm", "stm"): return ".%s %s %s" % (k, R(ins[1]), RL(ins[2]))
    if k in ("push", "pop"): return ".%s %s %s" % (k, RL(ins[1]), lean_bool(ins[2]))
    if k == "addSpImm": return ".addSpImm %s %d" % (R(ins[1]), ins[2])
    if k in ("incSp", "decSp"): return ".%s %d" % (k, ins[1])
    if k == "bx": return ".bx %s" % R(ins[1])
    if k == "bl": return ".bl .%s" % ins[1]
    raise AssertionError(k)


def t_encode(ins):
    """the 16-bit Thumb encoding of a decoded instruction (ARMv6-M ARM A5.2/A6.7), None for `bl`"""
    N = lambda r: T_ORDER.index(r)
    def rl(regs):
        v = 0
        for r in regs: v |= 1 << N(r)
        return v
    k = ins[0]
    if k == "addsReg": return (0b0001100 << 9) | (N(ins[3]) << 6) | (N(ins[2]) << 3) | N(ins[1])
    if k == "subsReg": return (0b0001101 << 9) | (N(ins[3]) << 6) | (N(ins[2]) << 3) | N(ins[1])
    if k == "movLo": return (0b0001110 << 9) | (0 << 6) | (N(ins[2]) << 3) | N(ins[1])                 # ADDS Rd, Rn, #0
    if k == "alu":
        opc = {"ands": 0b0000, "eors": 0b0001, "adcs": 0b0101, "sbcs": 0b0110, "orrs": 0b1100, "muls": 0b1101}[ins[1]]
        return (0b010000 << 10) | (opc << 6) | (N(ins[3]) << 3) | N(ins[2])
    if k == "rsbsZero": return (0b010000 << 10) | (0b1001 << 6) | (N(ins[2]) << 3) | N(ins[1])
    if k == "lslsImm": return (0b00000 << 11) | (ins[3] << 6) | (N(ins[2]) << 3) | N(ins[1])
    if k == "lsrsImm": return (0b00001 << 11) | ((ins[3] % 32) << 6) | (N(ins[2]) << 3) | N(ins[1])
    if k == "uxth": return (0b1011001010 << 6) | (N(ins[2]) << 3) | N(ins[1])
    if k == "movHi": return (0b01000110 << 8) | ((N(ins[1]) >> 3) << 7) | (N(ins[2]) << 3) | (N(ins[1]) & 7)
    if k in ("ldrImm", "strImm"):
        load = k == "ldrImm"
        if ins[2] == "sp": return ((0b10011 if load else 0b10010) << 11) | (N(ins[1]) << 8) | (ins[3] // 4)
        return ((0b01101 if load else 0b01100) << 11) | ((ins[3] // 4) << 6) | (N(ins[2]) << 3) | N(ins[1])
    if k == "ldm": return (0b11001 << 11) | (N(ins[1]) << 8) | rl(ins[2])
    if k == "stm": return (0b11000 << 11) | (N(ins[1]) << 8) | rl(ins[2])
    if k == "push": return (0b1011010 << 9) | (bool(ins[2]) << 8) | rl(ins[1])
    if k == "pop": return (0b1011110 << 9) | (bool(ins[2]) << 8) | rl(ins[1])
    if k == "addSpImm": return (0b10101 << 11) | (N(ins[1]) << 8) | (ins[2] // 4)
    if k == "incSp": return (0b101100000 << 7) | (ins[1] // 4)
    if k == "decSp": return (0b101100001 << 7) | (ins[1] // 4)
    if k == "bx": return (0b010001110 << 7) | (N(ins[1]) << 3)
    if k == "bl": return None
    raise AssertionError(k)


T_ENDS = ("bx", "pop")


# ============================================================================= files, macros
ACCEPTED_DIRECTIVES = {".globl", ".global", ".type", ".text", ".size", ".align", ".p2align", ".balign"}


def parse_file(path, short, comment, extra_directives, parse_instr):
    """-> (items, globls); items = ('label', name, where) | ('insn', tuple, where, text)"""
    macros = {}
    items, globls = [], []
    cur_macro = None
    accepted = ACCEPTED_DIRECTIVES | set(extra_directives)

    def expand(text, where, depth):
        if depth > 50: die(where, "macro recursion too deep")
        text = text.strip()
        if not text: return
        if ";" in text: die(where, "';' statement separator not supported")
        m = re.match(r"(%s)\s*:" % LABEL_RE, text)
        if m:
            items.append(("label", m.group(1), where))
            expand(text[m.end():], where, depth); return
        parts = text.split(None, 1)
        head, rest = parts[0], (parts[1] if len(parts) > 1 else "")
        if head.startswith(".") and not head.lower().startswith("b."):
            if head in (".macro", ".endm"): die(where, "nested macro definition")
            if head not in accepted: die(where, "directive '%s' not understood" % head)
            if head in (".globl", ".global"):
                for s in split_top(rest, where, False):
                    if not re.fullmatch(LABEL_RE, s): die(where, "bad symbol in %s" % head)
                    if s not in globls: globls.append(s)
            return
        if head in macros:
            params, body, mwhere = macros[head]
            args = split_top(rest, where, True)
            if len(args) != len(params):
                die(where, "macro '%s' (defined at %s) takes %d argument(s), %d given" % (head, mwhere, len(params), len(args)))
            for (bl, bwhere) in body:
                def sub(mm):
                    name = mm.group(1)
                    if name == "@": die(bwhere, "\\@ not supported")
                    if name == "()": return ""
                    if name in params: return args[params.index(name)]
                    die(bwhere, "'\\%s' is not a parameter of macro '%s'" % (name, head))
                line = re.sub(r"\\(@|\(\)|[A-Za-z_][A-Za-z0-9_]*)", sub, bl)
                if "\\" in line: die(bwhere, "backslash construct not understood in '%s'" % bl)
                expand(line, "%s (in %s invoked at %s)" % (bwhere, head, where.split(" (")[0]), depth + 1)
            return
        items.append(("insn", parse_instr(head, rest, where), where, text))

    with open(path, encoding="utf-8") as f:
        lines = f.read().split("\n")
    for ln, raw in enumerate(lines, 1):
        where = "%s:%d" % (short, ln)
        text = raw.split(comment, 1)[0].rstrip()
        if "/*" in text or "*/" in text: die(where, "C-style comments not supported")
        if '"' in text or "'" in text: die(where, "string/character literals not supported")
        st = text.strip()
        if st.startswith("#"): die(where, "line starting with '#' (preprocessor line / comment) not supported")
        if cur_macro is not None:
            if re.match(r"\.endm\b", st):
                macros[cur_macro[0]] = (cur_macro[1], cur_macro[2], cur_macro[3]); cur_macro = None
            elif re.match(r"\.macro\b", st): die(where, "nested macro definition")
            elif st: cur_macro[2].append((st, where))
            continue
        if re.match(r"\.macro\b", st):
            parts = split_top(st[len(".macro"):], where, True)
            if not parts: die(where, ".macro without a name")
            name, params = parts[0], parts[1:]
            if not re.fullmatch(r"[A-Za-z_][A-Za-z0-9_]*", name): die(where, "bad macro name '%s'" % name)
            for p in params:
                if not re.fullmatch(r"[A-Za-z_][A-Za-z0-9_]*", p): die(where, "macro parameter '%s' not supported (defaults, :req, :vararg)" % p)
            if len(set(params)) != len(params): die(where, "macro '%s' has a repeated parameter" % name)
            if name in macros: die(where, "macro '%s' defined twice" % name)
            cur_macro = (name, params, [], where)
            continue
        if re.match(r"\.endm\b", st): die(where, ".endm without .macro")
        expand(st, where, 0)
    if cur_macro is not None: die("%s:%d" % (short, len(lines)), "unterminated .macro %s" % cur_macro[0])
    return items, globls


def build_routines(items, globls, short, branches, ends, externs):
    """-> list of (symbol, where, [(instr with resolved targets, where, text)], {label: index})"""
    labels = {}
    insns = []
    for it in items:
        if it[0] == "label":
            if it[1] in labels: die(it[2], "label '%s' defined twice (first at %s)" % (it[1], labels[it[1]][1]))
            labels[it[1]] = (len(insns), it[2])
        else:
            insns.append(it)
    for g in globls:
        if g not in labels: die(short, "exported symbol '%s' has no label" % g)
    starts = sorted((labels[g][0], g) for g in globls)
    for a, b in zip(starts, starts[1:]):
        if a[0] == b[0]: die(labels[b[1]][1], "exported symbols '%s' and '%s' label the same instruction" % (a[1], b[1]))
    if insns and (not starts or starts[0][0] != 0):
        die(insns[0][2], "code before the first exported symbol")
    out = []
    for k, (st, g) in enumerate(starts):
        en = starts[k + 1][0] if k + 1 < len(starts) else len(insns)
        if en == st: die(labels[g][1], "exported symbol '%s' has no code" % g)
        body = []
        local = {n: (i - st) for n, (i, _) in labels.items() if st <= i < en}
        for (_, ins, where, text) in insns[st:en]:
            if ins[0] in branches:
                pos = branches[ins[0]]
                tgt = ins[pos][1]
                if tgt not in labels: die(where, "branch to undefined label '%s'" % tgt)
                ti = labels[tgt][0]
                if not (st <= ti < en): die(where, "branch to '%s' leaves the routine '%s'" % (tgt, g))
                ins = ins[:pos] + (ti - st,) + ins[pos + 1:]
            if ins[0] == "bl":
                tgt = ins[1][1]
                if tgt not in externs: die(where, "call of '%s': only calls of %s are modelled" % (tgt, ", ".join(sorted(externs)) or "nothing"))
                ins = ("bl", externs[tgt], tgt)
            body.append((ins, where, text))
        last = body[-1][0]
        if last[0] not in ends or (last[0] == "pop" and not last[2]):
            die(body[-1][1], "routine '%s' does not end in an unconditional control transfer (falls through)" % g)
        out.append((g, labels[g][1], body, {n: i for n, i in local.items() if n != g}))
    return out


# ============================================================================= prototypes, fp.cpp
def parse_prototypes(repo, incdir):
    """extern "C" prototypes of the headers -> {name: (return type, [parameter types])}"""
    d = os.path.join(repo, incdir)
    if not os.path.isdir(d): die(d, "directory not found")
    protos = {}
    for f in sorted(os.listdir(d)):
        if not f.endswith(".hpp"): continue
        short = os.path.join(incdir, f)
        src = open(os.path.join(d, f), encoding="utf-8").read()
        src = re.sub(r"/\*.*?\*/", lambda m: "\n" * m.group(0).count("\n"), src, flags=re.S)
        src = re.sub(r"//[^\n]*", "", src)
        for m in re.finditer(r'extern\s+"C"\s*\{(.*?)\}', src, flags=re.S):
            line0 = src[:m.start(1)].count("\n") + 1
            for decl in m.group(1).split(";"):
                if not decl.strip(): continue
                where = "%s:%d" % (short, line0 + m.group(1)[:m.group(1).find(decl.strip())].count("\n"))
                mm = re.fullmatch(r"\s*([A-Za-z_][A-Za-z0-9_ ]*?)\s+([A-Za-z_][A-Za-z0-9_]*)\s*\(([^()]*)\)\s*", decl, flags=re.S)
                if not mm: die(where, "extern \"C\" declaration not understood: '%s'" % " ".join(decl.split()))
                ret, name = " ".join(mm.group(1).split()), mm.group(2)
                params = []
                for p in mm.group(3).split(","):
                    p = " ".join(p.split())
                    pm = re.fullmatch(r"((?:const )?void ?\*|uint64_t|uint32_t)( ?[A-Za-z_][A-Za-z0-9_]*)?", p)
                    if not pm: die(where, "parameter '%s' of %s: only [const] void* / uint64_t / uint32_t are understood" % (p, name))
                    params.append(pm.group(1).replace(" *", "*"))
                if ret not in ("void", "bool", "uint64_t", "uint32_t"): die(where, "return type '%s' of %s not understood" % (ret, name))
                if name in protos: die(where, "prototype of %s declared twice" % name)
                protos[name] = (ret, params, where)
    return protos


def check_fp_cpp(repo):
    """the C++ function called by `bl`: its definition must be exactly the forwarding to FpBase<384>::reduce"""
    short = os.path.join(V6M_DIR, "fp.cpp")
    p = os.path.join(repo, short)
    if not os.path.exists(p): die(short, "file not found")
    src = open(p, encoding="utf-8").read()
    src = re.sub(r"/\*.*?\*/", lambda m: "\n" * m.group(0).count("\n"), src, flags=re.S)
    src = re.sub(r"//[^\n]*", "", src)
    m = re.search(r"\bvoid\s+%s\s*\(\s*void\s*\*\s*res\s*,\s*const\s+void\s*\*\s*a\s*,\s*const\s+void\s*\*\s*p\s*\)\s*\{(.*?)\n\}" % REDUCE_SYM, src, flags=re.S)
    if not m: die(short, "definition `void %s(void* res, const void* a, const void* p) {…}` not found" % REDUCE_SYM)
    where = "%s:%d" % (short, src[:m.start()].count("\n") + 1)
    body = " ".join(m.group(1).split())
    expect = ("embedded_pairing::core::FpBase<384>* res_val = static_cast<embedded_pairing::core::FpBase<384>*>(res); "
              "const embedded_pairing::core::BigInt<384>* a_val = static_cast<const embedded_pairing::core::BigInt<384>*>(a); "
              "const embedded_pairing::core::BigInt<384>* p_val = static_cast<const embedded_pairing::core::BigInt<384>*>(p); "
              "res_val->reduce(*a_val, *p_val);")
    if body != expect:
        die(where, "body of %s is not the expected forwarding to FpBase<384>::reduce (the model of `bl` in Impl/Thumb1.lean would be wrong): '%s'" % (REDUCE_SYM, body))
    return where


# ============================================================================= cross-checks
def run(cmd, where):
    p = subprocess.run(cmd, capture_output=True, text=True)
    if p.returncode != 0: die(where, "%s failed: %s" % (cmd[0], (p.stderr or p.stdout).strip()[:800]))
    return p.stdout


def read_objdump(text, with_raw):
    """-> {symbol: [(addr, mnemonic, operands, nbytes)]}, in address order per symbol block"""
    dis, cur = {}, None
    for line in text.split("\n"):
        m = re.match(r"^[0-9a-f]+ <([^>]+)>:$", line)
        if m:
            cur = m.group(1); dis.setdefault(cur, []); continue
        if with_raw:
            m = re.match(r"^\s*([0-9a-f]+):\s+((?:[0-9a-f]{2} )+)\s*\t(\S+)\s*(.*)$", line)
            if m and cur is not None:
                bs = m.group(2).split()
                dis[cur].append((int(m.group(1), 16), m.group(3), m.group(4).strip(), len(bs), int("".join(reversed(bs)), 16)))
        else:
            m = re.match(r"^\s*([0-9a-f]+):\s+(\S+)\s*(.*)$", line)
            if m and cur is not None:
                dis[cur].append((int(m.group(1), 16), m.group(2), m.group(3).strip(), 4, None))
    return dis


def merge_blocks(dis, names, short):
    order = sorted(((v[0][0], k) for k, v in dis.items() if v), key=lambda t: t[0])
    merged, owner = {}, None
    for (_, sym) in order:
        if sym in names: owner = sym
        if owner is None: die(short, "cross-check: code before the first exported symbol in the object file")
        merged.setdefault(owner, []).extend(dis[sym])
    return merged


def a64_crosscheck(path, short, routines):
    tmp = tempfile.mkdtemp(prefix="arm2lean_")
    try:
        obj = os.path.join(tmp, "x.o")
        run(["llvm-mc", "--triple=aarch64", "-filetype=obj", "-o", obj, path], short)
        out = run(["llvm-objdump", "-d", "-M", "no-aliases", "-j", ".text", obj], short)
        merged = merge_blocks(read_objdump(out, True), [r[0] for r in routines], short)
        for (g, gwhere, body, _) in routines:
            got = merged.get(g)
            if got is None: die(gwhere, "cross-check: '%s' not found in the object file" % g)
            if len(got) != len(body):
                die(gwhere, "cross-check: llvm-mc produced %d instructions for '%s', the translator %d" % (len(got), g, len(body)))
            index = {a: i for i, (a, _, _, _, _) in enumerate(got)}
            for i, ((addr, mn, optext, nbytes, word), (ins, where, text)) in enumerate(zip(got, body)):
                w = "%s [llvm-objdump %x: %s %s]" % (where, addr, mn, optext)
                optext = re.sub(r"\s*<[^>]*>\s*$", "", optext)
                theirs = a64_parse(mn, re.sub(r"\b0x([0-9a-f]+)$", r"L\1", optext) if (mn == "b" or mn.startswith("b.") or mn in ("cbz", "cbnz")) else optext, w)
                if theirs[0] in A64_BRANCHES:
                    pos = A64_BRANCHES[theirs[0]]
                    a = int(theirs[pos][1][1:], 16)
                    if a not in index: die(w, "cross-check: branch target is not an instruction of the routine")
                    theirs = theirs[:pos] + (index[a],) + theirs[pos + 1:]
                if theirs != ins:
                    die(w, "cross-check: llvm-mc assembled '%s', the translator produced '%s' from '%s'" % (a64_lean(theirs), a64_lean(ins), text))
                if nbytes != 4 or a64_encode(ins, i) != word:
                    die(w, "cross-check: llvm-mc encoded %08x, the translator's reading '%s' of '%s' encodes as %08x" % (word, a64_lean(ins), text, a64_encode(ins, i)))
    finally:
        shutil.rmtree(tmp, ignore_errors=True)


def t_encodability(short, routines):
    """print the decoded instructions in unified syntax, assemble for thumbv6m, compare the disassembly"""
    tmp = tempfile.mkdtemp(prefix="arm2lean_")
    try:
        src = os.path.join(tmp, "x.s"); obj = os.path.join(tmp, "x.o")
        L = [".syntax unified", ".thumb", ".text"]
        for (g, _, body, _) in routines:
            L += [".globl %s" % g, ".type %s, %%function" % g, "%s:" % g]
            L += ["    " + t_ual(ins) for (ins, _, _) in body]
        with open(src, "w") as f: f.write("\n".join(L) + "\n")
        run(["llvm-mc", "--triple=thumbv6m-none-eabi", "-filetype=obj", "-o", obj, src], short + " (unified-syntax rendering)")
        out = run(["llvm-objdump", "-d", "--triple=thumbv6m-none-eabi", "-j", ".text", obj], short)
        merged = merge_blocks(read_objdump(out, True), [r[0] for r in routines], short)
        for (g, gwhere, body, _) in routines:
            got = [x for x in merged.get(g, []) if not x[1].startswith(".")]
            if len(got) != len(body):
                die(gwhere, "encodability check: llvm-mc produced %d instructions for '%s', the translator %d" % (len(got), g, len(body)))
            for (addr, mn, optext, nbytes, word), (ins, where, text) in zip(got, body):
                w = "%s [llvm-objdump %x: %s %s]" % (where, addr, mn, optext)
                optext = optext.split("@")[0].strip()
                if mn == "bl":
                    if ins[0] != "bl" or nbytes != 4: die(w, "encodability check: unexpected bl")
                    continue
                if nbytes != 2: die(w, "encodability check: not a 16-bit encoding")
                theirs = t_parse(mn, optext, w, True)
                if t_encode(ins) != word:
                    die(w, "encodability check: llvm-mc encoded %04x, the translator's reading '%s' of '%s' encodes as %04x" % (word, t_lean(ins), text, t_encode(ins)))
                if theirs != ins:
                    die(w, "encodability check: llvm-mc reads the encoding as '%s', the translator decoded '%s' from '%s'" % (t_lean(theirs), t_lean(ins), text))
    finally:
        shutil.rmtree(tmp, ignore_errors=True)


# ============================================================================= Lean output
def emit(ns, model_mod, model_ns, srcdir, files, all_routines, lean_fn, note_fn, protos, header_extra):
    L = []
    L.append("/- GENERATED by translate/arm2lean.py from %s/{%s} of the repository's working tree; do not edit." % (srcdir, ", ".join(files)))
    L.append("   One `Program` (model: JediVerif/Impl/%s.lean) per exported routine: macros expanded, aliases resolved," % model_mod)
    L.append("   labels resolved to instruction indices; the comment on each line is `index source-line: source text`%s." % header_extra)
    L.append("   Long programs are split into chunks of %d instructions that are concatenated. -/" % CHUNK)
    L.append("import JediVerif.Impl.%s" % model_mod)
    L.append("")
    L.append("namespace Jedi.Gen.%s" % ns)
    L.append("open Jedi.%s" % model_ns)
    L.append("")
    for (short, routines) in all_routines:
        L.append("/-! ## %s -/" % short)
        L.append("")
        for (g, gwhere, body, local) in routines:
            doc = "/-- `%s` (%s), %d instructions%s -/" % (g, gwhere, len(body),
                  "".join("; label %s = %d" % (n[len(g):] if n.startswith(g) else n, i) for n, i in sorted(local.items(), key=lambda t: (t[1], t[0]))))
            chunks = [body[i:i + CHUNK] for i in range(0, len(body), CHUNK)]
            names = [g] if len(chunks) == 1 else ["%s_chunk%d" % (g, i) for i in range(len(chunks))]
            base = 0
            for name, ch in zip(names, chunks):
                if len(chunks) == 1: L.append(doc)
                L.append("def %s : Program := #[" % name)
                for i, (ins, where, text) in enumerate(ch):
                    src = " ".join(text.split())
                    L.append("  %s%s  -- %d %s: %s%s" % (lean_fn(ins), "," if i + 1 < len(ch) else "", base + i, where.split(" (")[0].split(":")[-1], src, note_fn(ins)))
                L.append("]")
                L.append("")
                base += len(ch)
            if len(chunks) > 1:
                L.append(doc)
                L.append("def %s : Program :=" % g)
                L.append("  " + " ++ ".join(names))
                L.append("")
    allr = [g for (_, rs) in all_routines for (g, _, _, _) in rs]
    L.append("/-- every exported routine, by symbol name -/")
    L.append("def routines : List (String × Program) := [")
    for i, g in enumerate(allr):
        L.append("  (\"%s\", %s)%s" % (g, g, "," if i + 1 < len(allr) else ""))
    L.append("]")
    L.append("")
    L.append("def lookup (sym : String) : Option Program := (routines.find? (·.1 == sym)).map (·.2)")
    L.append("")
    L.append("/-- the extern \"C\" prototypes of the headers: symbol, return type, parameter types -/")
    L.append("def signatures : List (String × String × List String) := [")
    for i, g in enumerate(allr):
        ret, params, _ = protos[g]
        L.append("  (\"%s\", \"%s\", [%s])%s" % (g, ret, ", ".join("\"%s\"" % p for p in params), "," if i + 1 < len(allr) else ""))
    L.append("]")
    L.append("")
    L.append("def signature (sym : String) : Option (String × List String) := (signatures.find? (·.1 == sym)).map (·.2)")
    L.append("")
    L.append("end Jedi.Gen.%s" % ns)
    return "\n".join(L) + "\n"


def write_if_changed(out, text):
    old = None
    if os.path.exists(out):
        with open(out, encoding="utf-8") as fh: old = fh.read()
    if old != text:
        with open(out, "w", encoding="utf-8") as fh: fh.write(text)
    return old != text


def translate_arch(repo, srcdir, incdir, comment, extra_directives, parse_instr, branches, ends, externs, allowed_unprototyped):
    d = os.path.join(repo, srcdir)
    if not os.path.isdir(d): die(d, "directory not found")
    files = sorted(f for f in os.listdir(d) if f.endswith(".s") or f.endswith(".S"))
    if not files: die(d, "no assembly sources")
    all_routines, seen, n = [], {}, 0
    for f in files:
        if f.endswith(".S"): die(os.path.join(srcdir, f), "preprocessed assembly (.S) not supported")
        short = os.path.join(srcdir, f)
        items, globls = parse_file(os.path.join(d, f), short, comment, extra_directives, parse_instr)
        routines = build_routines(items, globls, short, branches, ends, externs)
        for r in routines:
            if r[0] in seen: die(r[1], "symbol '%s' already defined at %s" % (r[0], seen[r[0]]))
            seen[r[0]] = r[1]
            n += len(r[2])
        all_routines.append((short, routines))
    protos = parse_prototypes(repo, incdir)
    for g, w in seen.items():
        if g not in protos: die(w, "exported routine '%s' has no extern \"C\" prototype in %s" % (g, incdir))
    for name, (_, _, w) in protos.items():
        if name not in seen and name not in allowed_unprototyped: die(w, "prototype of '%s' has no assembly routine in %s" % (name, srcdir))
    return files, all_routines, protos, len(seen), n


def main(argv):
    args = [a for a in argv[1:] if not a.startswith("--")]
    flags = [a for a in argv[1:] if a.startswith("--")]
    for f in flags:
        if f != "--no-crosscheck":
            print("arm2lean: unknown option %s" % f, file=sys.stderr); return 2
    repo = args[0] if len(args) > 0 else "/repo"
    outdir = args[1] if len(args) > 1 else os.path.join(VERIF, "lean", "JediVerif", "Gen")
    have_llvm = bool(shutil.which("llvm-mc") and shutil.which("llvm-objdump"))
    do_cc = "--no-crosscheck" not in flags and have_llvm
    try:
        # ---- AArch64
        files, routines, protos, nr, ni = translate_arch(repo, A64_DIR, A64_INC, "//", [], a64_parse, A64_BRANCHES, A64_ENDS, {}, set())
        if do_cc:
            for (short, rs) in routines: a64_crosscheck(os.path.join(repo, short), short, rs)
        text = emit("AsmA64", "A64", "A64", A64_DIR, files, routines, a64_lean, lambda ins: "", protos, "")
        out = os.path.join(outdir, "AsmA64.lean")
        ch = write_if_changed(out, text)
        msg_a = "aarch64: %d routines, %d instructions from %d files -> %s%s%s" % (
            nr, ni, len(files), os.path.relpath(out, VERIF), "" if ch else " (unchanged)",
            " [cross-checked against llvm-mc/llvm-objdump]" if do_cc else " [cross-check skipped]")
        # ---- ARMv6-M
        fpw = check_fp_cpp(repo)
        files, routines, protos, nr, ni = translate_arch(repo, V6M_DIR, V6M_INC, "@", [".thumb"],
            lambda mn, ops, where: t_parse(mn, ops, where, False), {}, T_ENDS, {REDUCE_SYM: "fpbase_384_reduce"}, set())
        for (short, rs) in routines:
            if do_cc: t_encodability(short, rs)
        def note(ins):
            if ins[0] == "bl": return "  [call of the C++ function %s, %s]" % (ins[2], fpw)
            if ins[0] == "movLo": return "  [GNU as: %s; ARMv6 MOV: no flags; model: flags unknown]" % t_ual(ins)
            return "  [%s]" % t_ual(ins)
        text = emit("AsmV6M", "Thumb1", "Thumb1", V6M_DIR, files, routines, lambda ins: t_lean(ins[:2]) if ins[0] == "bl" else t_lean(ins), note, protos,
                    ", followed by the unified-syntax name of the 16-bit encoding the divided-syntax source line denotes")
        out = os.path.join(outdir, "AsmV6M.lean")
        ch = write_if_changed(out, text)
        msg_t = "armv6_m: %d routines, %d instructions from %d files -> %s%s%s" % (
            nr, ni, len(files), os.path.relpath(out, VERIF), "" if ch else " (unchanged)",
            " [llvm-mc cannot assemble the divided-syntax sources: no cross-check of the source reading; decoded forms checked to be encodable for thumbv6m]" if do_cc else " [checks skipped]")
    except AsmError as e:
        print("arm2lean: ERROR %s" % e, file=sys.stderr)
        return 1
    print("arm2lean: " + msg_a + "; " + msg_t)
    return 0


if __name__ == "__main__":
    sys.exit(main(sys.argv))
