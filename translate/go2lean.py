#!/usr/bin/env python3
"""T8: the Go bindings (lang/go) -> lean/JediVerif/Gen/GoBindings.lean.

usage: go2lean.py [repo] [outfile]

No Go toolchain exists in the sandbox, so the Go layer cannot be executed; it is *translated*.  The source is parsed
(goparse.py, a strict parser for the Go subset the bindings use) on every run and three things are generated:

 1. tables: every Go function (package, receiver, name, parameters, canonical text digest), every call of a C function
    with the C type of each argument as the Go type rules give it, the C prototypes / exported variables / typedefs of
    the three C headers (clang AST), the Go struct types with the C type of their `Data` member, the package-level
    variables bound to C symbols;
 2. a memory model of every function: a symbolic execution of the body (both branches of every `if`, `for .. range`
    loops as a map over the index range, package-local calls inlined) that produces the list of memory events of a call
    as a Lean function of an environment `E` (slice lengths, results of C calls, integer fields, nil-ness of pointer
    fields, sizeof of C types): allocations, accesses through pointers derived from malloc'ed blocks (block size,
    offset, length), Go slice indexings, and C calls with, for each argument, the bytes available behind the pointer
    and the capacities of the pointer members of the object passed;
 3. the list of functions whose body uses a construct the executor does not model (they are covered by the digest
    only).

The theorems (Properties/GoBindings.lean) are stated over these generated definitions for every environment.
What is trusted: this translator's reading of Go (there is no execution to compare it with), and the C contracts in
Impl/GoMem.lean, each of which is a theorem or a judged fact on the C side (named there).
"""
import hashlib, json, os, re, subprocess, sys, tempfile
HERE = os.path.dirname(os.path.abspath(__file__))
sys.path.insert(0, HERE)
from goparse import parse_file, sexp, GoSyntax

VERIF = os.path.dirname(HERE)
PKGS = ['internal', 'bls12381', 'cryptutils', 'wkdibe', 'lqibe']
C_HEADERS = ['bls12_381/bls12_381.h', 'wkdibe/wkdibe.h', 'lqibe/lqibe.h']


KEYLIST = r'\[(?:"(?:[^"\\]|\\.)*"(?:, )?)*\]'


class Unsupported(Exception):
    pass


# ---------------------------------------------------------------- C side
def clang_tables(repo):
    with tempfile.TemporaryDirectory(prefix='go2lean_') as td:
        src = os.path.join(td, 'all.c')
        with open(src, 'w') as f:
            for h in C_HEADERS:
                f.write(f'#include "{h}"\n')
            f.write('#include <stddef.h>\nvoid go_random_bytes(void* buffer, size_t length);\n'
                    'void go_hash_fill(void* buffer, size_t bufferLength, const void* toHash, size_t toHashLength);\n')
        r = subprocess.run(['clang-14', '-x', 'c', '-std=c11', '-I', os.path.join(repo, 'include'), '-fsyntax-only',
                            '-Xclang', '-ast-dump=json', src], capture_output=True, text=True)
        if r.returncode != 0:
            raise SystemExit('go2lean: clang failed on the C headers:\n' + r.stderr[-2000:])
        ast = json.loads(r.stdout)
    protos, cvars, typedefs, structs = {}, {}, {}, {}
    recs = {}
    for x in ast['inner']:
        k = x.get('kind')
        if k == 'RecordDecl' and 'inner' in x:
            recs[x['id']] = [(f['name'], f['type']['qualType']) for f in x['inner'] if f.get('kind') == 'FieldDecl']
    for x in ast['inner']:
        k = x.get('kind'); name = x.get('name', '')
        if k == 'FunctionDecl' and (name.startswith('embedded_pairing') or name.startswith('go_')):
            ps = [p['type']['qualType'] for p in x.get('inner', []) if p.get('kind') == 'ParmVarDecl']
            ret = x['type']['qualType'].split('(')[0].strip()
            protos[name] = (ret, ps)
        elif k == 'VarDecl' and name.startswith('embedded_pairing'):
            cvars[name] = x['type']['qualType']
        elif k == 'TypedefDecl' and name.startswith('embedded_pairing'):
            under = x['type']['qualType']
            typedefs[name] = under
            # typedef struct {...} name;
            for inn in x.get('inner', []):
                od = inn.get('ownedTagDecl') or {}
                if od.get('id') in recs:
                    structs[name] = recs[od['id']]
                for inn2 in inn.get('inner', []) if isinstance(inn.get('inner'), list) else []:
                    d = inn2.get('decl') or {}
                    if d.get('id') in recs:
                        structs[name] = recs[d['id']]
    return protos, cvars, typedefs, structs


def canon(ty, typedefs):
    """strip const, resolve typedef chains of embedded_pairing_* names down to the struct typedef"""
    ty = re.sub(r'\bconst\b', '', ty)
    ty = re.sub(r'\s+', ' ', ty).strip()
    ty = ty.replace(' *', '*')
    m = re.match(r'^([A-Za-z_0-9 ]+?)(\**)$', ty)
    if not m:
        return ty
    base, stars = m.group(1).strip(), m.group(2)
    seen = set()
    while base in typedefs and base not in seen:
        seen.add(base)
        u = re.sub(r'\bconst\b', '', typedefs[base]).strip()
        if u.startswith('struct ') or not u.startswith('embedded_pairing'):
            break
        base = u
    if base == 'bool':
        base = '_Bool'
    return base + stars


# ---------------------------------------------------------------- Go side
def unparse(e):
    """Go text of an expression (canonical spacing)"""
    t = e[0]
    if t in ('id', 'num', 'str'):
        return e[1]
    if t == 'sel':
        return unparse(e[1]) + '.' + e[2]
    if t == 'call':
        return unparse(e[1]) + '(' + ', '.join(unparse(a) for a in e[2]) + ')'
    if t == 'index':
        return unparse(e[1]) + '[' + unparse(e[2]) + ']'
    if t == 'slice':
        return unparse(e[1]) + '[' + ':'.join('' if x is None else unparse(x) for x in e[2:5]) + ']'
    if t == 'un':
        return e[1] + unparse(e[2])
    if t == 'bin':
        return unparse(e[2]) + ' ' + e[1] + ' ' + unparse(e[3])
    if t == 'paren':
        return '(' + unparse(e[1]) + ')'
    if t == 'arr':
        return '[' + ('' if e[1] is None else unparse(e[1])) + ']' + unparse(e[2])
    if t == 'map':
        return 'map[' + unparse(e[1]) + ']' + unparse(e[2])
    if t == 'funclit':
        return 'func{…}'
    if t == 'complit':
        return unparse(e[1]) + '{…}'
    return sexp(e)


def lstr(s):
    return '"' + s.replace('\\', '\\\\').replace('"', '\\"') + '"'


def llist(xs):
    return '[' + ', '.join(xs) + ']'


def key(kind, *parts):
    return '(' + lstr(kind) + ', ' + llist([lstr(p) for p in parts]) + ')'


def V(k, **kw):
    d = {'k': k}
    d.update(kw)
    return d


class World:
    def __init__(self, repo):
        self.repo = repo
        self.protos, self.cvars, self.typedefs, self.structs = clang_tables(repo)
        self.pkgs = {}       # pkg -> {'funcs': {qual: decl}, 'types': {name: type ast}, 'vars': {name: (type, init)}}
        self.files = {}
        for pkg in PKGS:
            d = os.path.join(repo, 'lang', 'go', pkg)
            info = {'funcs': {}, 'types': {}, 'vars': {}, 'order': []}
            for fn in sorted(os.listdir(d)):
                if not fn.endswith('.go') or fn.endswith('_test.go'):
                    continue
                path = os.path.join(d, fn)
                p, decls = parse_file(path)
                if p != pkg:
                    raise SystemExit(f'go2lean: {path}: package {p}, expected {pkg}')
                for dcl in decls:
                    if dcl[0] == 'func':
                        recv = dcl[1]
                        rname = None
                        if recv:
                            rt = recv[1]
                            rname = unparse(rt).lstrip('*')
                        q = (rname + '.' if rname else '') + dcl[2]
                        info['funcs'][q] = dcl
                        info['order'].append((q, f'lang/go/{pkg}/{fn}'))
                    elif dcl[0] == 'typedecl':
                        info['types'][dcl[1]] = dcl[2]
                    elif dcl[0] == 'vardecl':
                        info['vars'][dcl[1]] = (dcl[2], dcl[3], f'lang/go/{pkg}/{fn}')
            self.pkgs[pkg] = info

    def ctype(self, t):
        return canon(t, self.typedefs)

    def go_struct_data(self, pkg, name):
        """C type of the Data member of Go struct type pkg.name (through one embedded struct)"""
        t = self.pkgs[pkg]['types'].get(name)
        if not t or t[0] != 'struct':
            return None
        for fname, fty in t[1]:
            if fname == 'Data':
                u = unparse(fty)
                if u.startswith('C.'):
                    return self.ctype(u[2:])
            if fname is None:
                u = unparse(fty)
                if '.' in u:
                    p2, n2 = u.split('.', 1)
                    return self.go_struct_data(p2, n2)
                return self.go_struct_data(pkg, u)
        return None

    def field_type(self, cty, f):
        for n, t in self.structs.get(cty, []):
            if n == f:
                return self.ctype(t)
        return None


class Exec:
    """symbolic execution of one function body; produces a Lean term of type List Ev"""

    def __init__(self, world, pkg, qual, depth=0):
        self.w, self.pkg, self.qual, self.depth = world, pkg, qual, depth
        self.calls = []          # (cname, [ctype or '?'], [text]) for the tables
        self.fresh = 0
        self.tag = qual

    def gen(self, base):
        self.fresh += 1
        return f'{base}_{self.fresh}'

    # ---- values
    def Int(self, e):
        return V('int', e=e)

    def type_of_go(self, ty):
        """value for a parameter / variable of Go type ty (AST)"""
        u = unparse(ty)
        return u

    def param_value(self, name, ty):
        u = unparse(ty)
        if u == 'bool':
            return V('bool', e=f'(E.b {key("param", name)} = true)', text=name)
        if u in ('int', 'int32', 'int64', 'uint32', 'uintptr', 'AttributeIndex'):
            return self.Int(f'E.i {key("param", name)}')
        if u == '[]byte':
            return V('slice', name=name, len=f'E.i {key("len", name)}', esz='1', elem='byte')
        if u.startswith('[]*'):
            return V('pslice', name=name, len=f'E.i {key("len", name)}', elem=u[3:])
        if u.startswith('*'):
            return self.go_ptr(name, u[1:])
        if ty[0] == 'map' or u == 'AttributeList':
            return V('map', name=name, len=f'E.i {key("len", name)}', nil=f'(E.b {key("nil", name)} = true)')
        if u == 'unsafe.Pointer':
            return V('cptr', cty=None, blk=name, size=f'E.i {key("cap", name)}', off='0', text=name)
        return V('opaque', d=f'{name}:{u}')

    def go_ptr(self, name, tname):
        pkg = self.pkg
        if '.' in tname:
            pkg, tname = tname.split('.', 1)
        if pkg == 'C':
            return V('cptr', cty=self.w.ctype(tname), blk=name, size=f'E.sz {lstr(self.w.ctype(tname))}', off='0', text=name, goobj=True)
        if pkg in self.w.pkgs and tname in self.w.pkgs[pkg]['types']:
            return V('gptr', pkg=pkg, ty=tname, path=name)
        return V('opaque', d=f'{name}:*{pkg}.{tname}')

    # ---- statements: continuation style; returns Lean term (List Ev)
    def run_function(self, decl, args=None, path_prefix=''):
        _, recv, name, params, results, body = decl
        env = {}
        if recv:
            env[recv[0]] = self.param_value(recv[0], recv[1])
        for i, (pn, pt) in enumerate(params):
            if pn is None:
                raise Unsupported('unnamed parameter')
            env[pn] = args[i] if args is not None else self.param_value(pn, pt)
        st = {'vars': env, 'fields': {}, 'defers': []}
        return self.block(body[1], st, lambda st2, ret: '[]')

    def clone(self, st):
        return {'vars': dict(st['vars']), 'fields': dict(st['fields']), 'defers': list(st['defers'])}

    def block(self, stmts, st, k):
        """events of stmts followed by continuation k(state, returned_value_or_None)"""
        if not stmts:
            return k(st, None)
        s, rest = stmts[0], stmts[1:]
        nxt = lambda st2, ret: (k(st2, ret) if ret is not None else self.block(rest, st2, k))
        return self.stmt(s, st, nxt)

    def cat(self, *xs):
        xs = [x for x in xs if x and x != '[]']
        if not xs:
            return '[]'
        return ' ++ '.join(f'({x})' if (' ' in x and not x.startswith('[')) else x for x in xs)

    RET = object()

    def stmt(self, s, st, k):
        t = s[0]
        if t == 'block':
            return self.block(s[1], st, k)
        if t == 'expr':
            tgt = self.local_target(s[1], st) if s[1][0] == 'call' else None
            if tgt is not None and not self.w.pkgs[tgt[0]]['funcs'][tgt[1]][4]:
                # a call of a result-less function of the bindings as a statement: run its body with the rest of the
                # caller as continuation, so that each of its branches carries its own state into what follows
                decl = self.w.pkgs[tgt[0]]['funcs'][tgt[1]]
                vals, evs = [], []
                for a in s[1][2]:
                    v, ev = self.expr(a, st)
                    vals.append(v); evs.append(ev)
                if self.depth > 4 or len(decl[3]) != len(vals) or decl[1]:
                    raise Unsupported('statement call of ' + tgt[1])
                sub = Exec(self.w, tgt[0], f'{tgt[0]}.{tgt[1]}', self.depth + 1)
                sub.fresh = self.fresh + 1000 * (self.depth + 1)
                sub.calls = self.calls
                env = {pn: v for (pn, pt), v in zip(decl[3], vals)}
                caller_vars = st['vars']
                st2 = {'vars': env, 'fields': dict(st['fields']), 'defers': []}
                body = sub.block(decl[5][1], st2, lambda st3, ret: k({'vars': dict(caller_vars), 'fields': dict(st3['fields']), 'defers': list(st['defers'])}, None))
                return self.cat(*evs, body)
            v, ev = self.expr(s[1], st)
            if v.get('k') == 'panic':
                return self.cat(ev, f'[.panic {lstr(v["msg"])}]')
            return self.cat(ev, k(st, None))
        if t == 'var':
            _, name, ty, init = s
            if init is not None:
                v, ev = self.expr(init, st)
            else:
                v, ev = self.zero_value(name, ty), '[]'
            st = self.clone(st); st['vars'][name] = v
            return self.cat(ev, k(st, None))
        if t == 'define' or (t == 'assign' and s[2] == '='):
            lhs = s[1]; rhs = s[2] if t == 'define' else s[3]
            if len(lhs) != len(rhs):
                if len(rhs) == 1:
                    v, ev = self.expr(rhs[0], st)
                    st = self.clone(st)
                    for l in lhs:
                        if l[0] == 'id' and l[1] != '_':
                            st['vars'][l[1]] = V('opaque', d=unparse(rhs[0]))
                    return self.cat(ev, k(st, None))
                raise Unsupported('assignment arity')
            evs = []
            st = self.clone(st)
            pre = None
            for l, r in zip(lhs, rhs):
                v, ev = self.expr(r, st)
                evs.append(ev)
                if l[0] == 'id':
                    if l[1] == '_':
                        continue
                    if v['k'] == 'int' and t == 'define':
                        # name the value with a let so the generated term stays readable
                        nm = re.sub(r'\W', '_', l[1])
                        pre = (nm, v['e'])
                        v = dict(v); v['e'] = nm
                    st['vars'][l[1]] = v
                else:
                    evs.append(self.store(l, v, st))
            body = k(st, None)
            if pre:
                body = f'(let {pre[0]} : Int := {pre[1]}; {body})'
            return self.cat(*evs, body)
        if t == 'incdec':
            raise Unsupported('++/-- outside a modelled loop')
        if t == 'return':
            evs = []
            val = V('unit')
            for e in s[1]:
                v, ev = self.expr(e, st)
                evs.append(ev); val = v
            return self.cat(*evs, k(st, val if s[1] else V('unit')))
        if t == 'defer':
            # C.free(buffer) at function exit: no bounds content
            return k(st, None)
        if t == 'if':
            _, init, cond, then, els = s
            pre = '[]'
            if init is not None:
                hold = {}
                pre = self.stmt(init, st, lambda st2, ret: hold.setdefault('st', st2) and '[]')
                st = hold['st']
            c, evc = self.cond(cond, st)
            a = self.stmt(then, self.clone(st), k)
            b = self.stmt(els, self.clone(st), k) if els is not None else k(self.clone(st), None)
            if c is True:
                return self.cat(pre, evc, a)
            if c is False:
                return self.cat(pre, evc, b)
            return self.cat(pre, evc, f'(if {c} then {a} else {b})')
        if t == 'range':
            _, kx, vx, define, e, body = s
            coll, ev = self.expr(e, st)
            if coll['k'] not in ('slice', 'pslice', 'map', 'islice'):
                raise Unsupported('range over ' + coll['k'])
            # idiom: for x := range m { s = append(s, ...) }
            b = body[1]
            if len(b) == 1 and b[0][0] == 'assign' and b[0][3][0][0] == 'call' and unparse(b[0][3][0][1]) == 'append':
                tgt = b[0][1][0]
                if tgt[0] == 'id' and st['vars'].get(tgt[1], {}).get('k') == 'islice' and st['vars'][tgt[1]]['len'] == '0':
                    st = self.clone(st)
                    st['vars'][tgt[1]] = V('islice', name=tgt[1], len=coll['len'], sorted_from=coll.get('name'))
                    return self.cat(ev, k(st, None))
                raise Unsupported('append')
            iv = self.gen('i')
            st2 = self.clone(st)
            if kx is not None and kx[1] != '_':
                if coll['k'] == 'map':
                    st2['vars'][kx[1]] = V('opaque', d='mapkey')
                else:
                    st2['vars'][kx[1]] = self.Int(f'(({iv} : Nat) : Int)')
            if vx is not None and vx[1] != '_':
                if coll['k'] == 'islice':
                    st2['vars'][vx[1]] = self.Int(f'E.i {key("elem", coll["name"])}') if False else V('int', e=f'(E.i ({lstr("elem")}, [{lstr(coll["name"])}, toString {iv}]))')
                else:
                    st2['vars'][vx[1]] = V('opaque', d='elem')
            self.check_loop_body(body, st2)
            inner = self.block(body[1], st2, lambda s3, ret: '[]')
            n = coll['len']
            loop = f'((List.range (Int.toNat ({n}))).flatMap fun {iv} => {inner})'
            return self.cat(ev, loop, k(st, None))
        if t == 'for':
            raise Unsupported('general for loop')
        raise Unsupported('statement ' + t)

    def check_loop_body(self, body, st):
        """a loop body may only define new variables, store through pointers and call; no assignment to outer variables"""
        for s in body[1]:
            if s[0] == 'assign':
                for l in s[1]:
                    if l[0] == 'id':
                        raise Unsupported('loop assigns outer variable ' + l[1])
            if s[0] in ('return', 'for', 'incdec'):
                raise Unsupported('loop body statement ' + s[0])

    def zero_value(self, name, ty):
        if ty is None:
            raise Unsupported('var without type')
        u = unparse(ty)
        if ty[0] == 'arr' and ty[1] is not None:
            n, _ = self.expr(ty[1], {'vars': {}, 'fields': {}, 'defers': []})
            return V('slice', name=name, len=n['e'], esz='1', elem=unparse(ty[2]), array=True)
        if u.startswith('C.'):
            c = self.w.ctype(u[2:])
            return V('cobj', cty=c, path=name)
        if u.startswith('*C.'):
            return V('nilptr', cty=self.w.ctype(u[3:]))
        if u in ('int', 'uintptr'):
            return self.Int('0')
        if u in self.w.pkgs[self.pkg]['types']:
            return V('gobj', pkg=self.pkg, ty=u, path=name)
        return V('opaque', d=f'var {name} {u}')

    # ---- conditions (Lean Prop text, or True/False when decided statically)
    def cond(self, e, st):
        t = e[0]
        if t == 'paren':
            return self.cond(e[1], st)
        if t == 'un' and e[1] == '!':
            c, ev = self.cond(e[2], st)
            if isinstance(c, bool):
                return (not c), ev
            return f'¬ ({c})', ev
        if t == 'bin' and e[1] in ('||', '&&'):
            a, eva = self.cond(e[2], st)
            b, evb = self.cond(e[3], st)
            if evb != '[]':
                # short circuit: the events of the right operand happen only when it is evaluated
                if isinstance(a, bool):
                    take = (not a) if e[1] == '||' else a
                    evb = evb if take else '[]'
                else:
                    evb = f'(if {a} then {"[]" if e[1] == "||" else evb} else {evb if e[1] == "||" else "[]"})'
            if isinstance(a, bool) or isinstance(b, bool):
                if e[1] == '||':
                    if a is True or b is True: return True, self.cat(eva, evb)
                    return (b if a is False else a), self.cat(eva, evb)
                if a is False or b is False: return False, self.cat(eva, evb)
                return (b if a is True else a), self.cat(eva, evb)
            op = '∨' if e[1] == '||' else '∧'
            return f'({a}) {op} ({b})', self.cat(eva, evb)
        if t == 'bin' and e[1] in ('==', '!=', '<', '<=', '>', '>='):
            a, eva = self.expr(e[2], st)
            b, evb = self.expr(e[3], st)
            ev = self.cat(eva, evb)
            nilcmp = None
            if b['k'] == 'nil':
                nilcmp = a
            elif a['k'] == 'nil':
                nilcmp = b
            if nilcmp is not None:
                n = self.is_nil(nilcmp)
                if e[1] == '==':
                    return n, ev
                if isinstance(n, bool):
                    return (not n), ev
                return f'¬ ({n})', ev
            if a['k'] == 'int' and b['k'] == 'int':
                op = {'==': '=', '!=': '≠', '<': '<', '<=': '≤', '>': '>', '>=': '≥'}[e[1]]
                return f'{a["e"]} {op} {b["e"]}', ev
            if a['k'] == 'gaddr' or b['k'] == 'gaddr':
                # pointer identity of Go objects (m.GT.Unmarshal(data) == &m.GT): the callee returns its receiver or nil
                other = b if a['k'] == 'gaddr' else a
                if other['k'] == 'opaque':
                    return f'(E.b {key("cond", unparse(e))} = true)', ev
            return f'(E.b {key("cond", unparse(e))} = true)', ev
        v, ev = self.expr(e, st)
        if v['k'] == 'bool':
            return v['e'], ev
        return f'(E.b {key("cond", unparse(e))} = true)', ev

    def is_nil(self, v):
        if v['k'] in ('nil', 'nilptr'):
            return True
        if v['k'] == 'cptr':
            if v.get('nil') is not None:
                return v['nil']
            return False
        if v['k'] in ('map', 'bigint'):
            return v['nil']
        if v['k'] in ('gptr', 'cobj', 'gobj'):
            return False
        if v['k'] == 'opaque':
            return f'(E.b {key("nil", v["d"])} = true)'
        raise Unsupported('nil comparison of ' + v['k'])

    # ---- stores
    def store(self, l, v, st):
        """events of `l = v`; updates st"""
        if l[0] == 'un' and l[1] == '*':
            p, ev = self.expr(l[2], st)
            if p['k'] != 'cptr' or p['cty'] is None:
                raise Unsupported('store through ' + p['k'])
            return self.cat(ev, f'[.access {lstr(unparse(l))} ({p["size"]}) ({p["off"]}) (E.sz {lstr(p["cty"])})]')
        if l[0] == 'sel':
            base, ev = self.expr(l[1], st)
            f = l[2]
            if base['k'] == 'cptr' and not base.get('goobj'):
                # field of a C struct reached through a typed pointer into a tracked block: the whole struct must be inside
                if base['cty'] is None:
                    raise Unsupported('field store through void pointer')
                st['fields'][unparse(l)] = v
                return self.cat(ev, f'[.access {lstr(unparse(l))} ({base["size"]}) ({base["off"]}) (E.sz {lstr(base["cty"])})]')
            if base['k'] in ('cobj', 'cptr'):
                st['fields'][self.path_of(base) + '.' + f] = v
                return ev
            raise Unsupported('store to field of ' + base['k'])
        if l[0] == 'index':
            base, ev = self.expr(l[1], st)
            i, evi = self.expr(l[2], st)
            if base['k'] == 'slice' and i['k'] == 'int':
                return self.cat(ev, evi, f'[.index {lstr(base["name"])} ({base["len"]}) ({i["e"]})]')
            raise Unsupported('index store')
        raise Unsupported('store to ' + l[0])

    def path_of(self, v):
        if v['k'] == 'cobj':
            return v['path']
        if v['k'] == 'cptr' and v.get('goobj'):
            return v['blk']
        raise Unsupported('path of ' + v['k'])

    # ---- expressions: returns (value, events)
    def expr(self, e, st):
        t = e[0]
        if t == 'paren':
            return self.expr(e[1], st)
        if t == 'num':
            return self.Int(str(int(e[1], 0))), '[]'
        if t == 'str':
            return V('opaque', d='string'), '[]'
        if t == 'id':
            n = e[1]
            if n in st['vars']:
                return st['vars'][n], '[]'
            if n == 'nil':
                return V('nil'), '[]'
            if n in ('true', 'false'):
                return V('bool', e='True' if n == 'true' else 'False', text=n), '[]'
            pv = self.w.pkgs[self.pkg]['vars'].get(n)
            if pv is not None:
                return self.pkg_var(self.pkg, n), '[]'
            return V('name', n=n), '[]'
        if t == 'sel':
            u = unparse(e)
            if e[1] == ('id', 'C'):
                f = e[2]
                if f.startswith('sizeof_'):
                    return self.Int(f'E.sz {lstr(self.w.ctype(f[7:]))}'), '[]'
                if f in self.w.cvars:
                    cty = self.w.ctype(self.w.cvars[f])
                    if cty.endswith('*'):
                        return V('cptr', cty=cty[:-1], blk=f, size=f'E.sz {lstr(cty[:-1])}', off='0', text=u, goobj=True), '[]'
                    return V('int', e=f'E.i {key("cvar", f)}', ctype=cty), '[]'
                if f in self.w.protos:
                    return V('cfun', n=f), '[]'
                return V('name', n=u), '[]'
            if e[1][0] == 'id' and e[1][1] in self.w.pkgs and e[1][1] not in st['vars']:
                p2 = e[1][1]
                if e[2] in self.w.pkgs[p2]['vars']:
                    return self.pkg_var(p2, e[2]), '[]'
                if e[2] in self.w.pkgs[p2]['funcs']:
                    return V('gofun', pkg=p2, n=e[2]), '[]'
                return V('name', n=u), '[]'
            if e[1][0] == 'id' and e[1][1] in ('unsafe', 'runtime', 'sort', 'sha3', 'rand', 'math', 'big') and e[1][1] not in st['vars']:
                return V('name', n=u), '[]'
            base, ev = self.expr(e[1], st)
            f = e[2]
            if u in st['fields']:
                return st['fields'][u], ev
            if base['k'] == 'gptr' or base['k'] == 'gobj':
                if f == 'Data':
                    c = self.w.go_struct_data(base['pkg'], base['ty'])
                    if c is None:
                        raise Unsupported('Data of ' + base['ty'])
                    return V('cobj', cty=c, path=base['path'] + '.Data'), ev
                # embedded struct (m.GT) or method value
                ty = self.w.pkgs[base['pkg']]['types'].get(base['ty'])
                if ty and ty[0] == 'struct':
                    for fname, fty in ty[1]:
                        if fname is None and unparse(fty).split('.')[-1] == f:
                            p2 = unparse(fty).split('.')[0] if '.' in unparse(fty) else base['pkg']
                            return V('gobj', pkg=p2, ty=f, path=base['path'] + '.' + f), ev
                return V('method', recv=base, n=f), ev
            if base['k'] == 'cobj' or (base['k'] == 'cptr' and base['cty'] is not None):
                path = (self.path_of(base) if (base['k'] == 'cobj' or base.get('goobj')) else unparse(e[1]))
                full = path + '.' + f
                if full in st['fields']:
                    return st['fields'][full], ev
                fty = self.w.field_type(base['cty'], f)
                if fty is None:
                    raise Unsupported(f'unknown field {f} of {base["cty"]}')
                if fty.endswith('*'):
                    return V('cptr', cty=fty[:-1], blk=full, size=f'E.i {key("cap", full)}', off='0', text=full,
                             nil=f'(E.b {key("nil", full)} = true)'), ev
                if fty in ('size_t', 'int', 'uint32_t', 'unsigned int', 'uint8_t'):
                    return V('int', e=f'E.i {key("field", full)}', ctype=fty), ev
                if fty == '_Bool':
                    return V('bool', e=f'(E.b {key("field", full)} = true)', text=full), ev
                if base['k'] == 'cptr' and not base.get('goobj'):
                    # sub-object of a C struct inside a tracked block
                    return V('csub', cty=fty, outer=base, field=f, path=full), ev
                return V('cobj', cty=fty, path=full), ev
            if base['k'] in ('opaque', 'name', 'slice', 'map', 'method'):
                return V('method', recv=base, n=f), ev
            raise Unsupported(f'selector .{f} on {base["k"]}')
        if t == 'un':
            op = e[1]
            if op == '&':
                inner = e[2]
                if inner[0] == 'index':
                    base, ev = self.expr(inner[1], st)
                    i, evi = self.expr(inner[2], st)
                    if base['k'] == 'slice' and i['k'] == 'int':
                        return (V('cptr', cty=None, blk=base['name'], size=f'{base["len"]} * {base["esz"]}', off=f'{i["e"]} * {base["esz"]}',
                                  text=unparse(e)),
                                self.cat(ev, evi, f'[.index {lstr(base["name"])} ({base["len"]}) ({i["e"]})]'))
                    if base['k'] == 'csub' or base['k'] == 'cobj':
                        # &idhash.hash[0]: array member of a C object
                        return V('cptr', cty=None, blk=base.get('path', '?'), size=f'E.sz {lstr(base["cty"])}', off='0', text=unparse(e), goobj=True), self.cat(ev, evi)
                    raise Unsupported('address of index of ' + base['k'])
                if inner[0] == 'complit':
                    v, ev = self.expr(inner, st)
                    return v, ev
                v, ev = self.expr(inner, st)
                if v['k'] == 'cobj':
                    return V('cptr', cty=v['cty'], blk=v['path'], size=f'E.sz {lstr(v["cty"])}', off='0', text=unparse(e), goobj=True,
                             objpath=v['path']), ev
                if v['k'] == 'csub':
                    return V('cptr', cty=v['cty'], blk=v['path'], size=f'E.sz {lstr(v["cty"])}', off='0', text=unparse(e), sub_of=v['outer']), ev
                if v['k'] == 'gobj':
                    return V('gaddr', path=v['path']), ev
                if v['k'] == 'slice' and v.get('array'):
                    return V('cptr', cty=None, blk=v['name'], size=f'{v["len"]} * {v["esz"]}', off='0', text=unparse(e)), ev
                raise Unsupported('address of ' + v['k'])
            if op == '*':
                v, ev = self.expr(e[2], st)
                if v['k'] == 'name' or v['k'] == 'cfun':
                    return V('type', t='*' + v.get('n', '?')), ev
                if v['k'] == 'type':
                    return V('type', t='*' + v['t']), ev
                raise Unsupported('deref of ' + v['k'])
            if op == '-':
                v, ev = self.expr(e[2], st)
                if v['k'] == 'int':
                    return self.Int(f'(-({v["e"]}))'), ev
            if op == '!':
                c, ev = self.cond(e, st)
                return V('bool', e=c if not isinstance(c, bool) else str(c), text=unparse(e)), ev
            raise Unsupported('unary ' + op)
        if t == 'bin':
            op = e[1]
            if op in ('==', '!=', '<', '<=', '>', '>=', '&&', '||'):
                c, ev = self.cond(e, st)
                return V('bool', e=c if not isinstance(c, bool) else ('True' if c else 'False'), text=unparse(e)), ev
            a, eva = self.expr(e[2], st)
            b, evb = self.expr(e[3], st)
            ev = self.cat(eva, evb)
            if a['k'] == 'int' and b['k'] == 'int' and op in ('+', '-', '*'):
                return self.Int(f'({a["e"]} {op} {b["e"]})'), ev
            if op == '+' and a['k'] == 'ptrint' and b['k'] == 'int':
                p = dict(a['p']); p['off'] = f'({p["off"]} + {b["e"]})'
                return V('ptrint', p=p), ev
            if op == '+' and b['k'] == 'ptrint' and a['k'] == 'int':
                p = dict(b['p']); p['off'] = f'({p["off"]} + {a["e"]})'
                return V('ptrint', p=p), ev
            raise Unsupported(f'binary {op} on {a["k"]},{b["k"]}')
        if t == 'index':
            base, ev = self.expr(e[1], st)
            i, evi = self.expr(e[2], st)
            if base['k'] == 'pslice' and i['k'] == 'int':
                return self.go_ptr(f'{base["name"]}[{i["e"]}]', base['elem']) | {'path': f'{base["name"]}[i]'}, \
                    self.cat(ev, evi, f'[.index {lstr(base["name"])} ({base["len"]}) ({i["e"]})]')
            if base['k'] == 'slice' and i['k'] == 'int':
                return V('opaque', d='byte'), self.cat(ev, evi, f'[.index {lstr(base["name"])} ({base["len"]}) ({i["e"]})]')
            if base['k'] == 'map':
                return V('bigint', nil=f'(E.b ({lstr("nilelem")}, [{lstr(base["name"])}, {self.idx_text(i)}]) = true)'), self.cat(ev, evi)
            raise Unsupported('index of ' + base['k'])
        if t == 'slice':
            base, ev = self.expr(e[1], st)
            if base['k'] == 'slice' and e[2] is None and e[3] is None:
                return base, ev
            raise Unsupported('slice expression')
        if t == 'arr' or t == 'map':
            return V('type', t=unparse(e)), '[]'
        if t == 'funclit':
            return V('opaque', d='funclit'), '[]'
        if t == 'complit':
            ty = unparse(e[1])
            evs = []
            fields = {}
            for kx, vx in e[2]:
                v, ev = self.expr(vx, st)
                evs.append(ev)
                if kx is not None:
                    fields[unparse(kx)] = v
            if ty.startswith('C.'):
                nm = self.gen('lit')
                c = self.w.ctype(ty[2:])
                for f, v in fields.items():
                    st['fields'][nm + '.' + f] = v
                return V('cptr', cty=c, blk=nm, size=f'E.sz {lstr(c)}', off='0', text='&' + ty + '{…}', goobj=True, objpath=nm), self.cat(*evs)
            raise Unsupported('composite literal of ' + ty)
        if t == 'call':
            return self.call(e, st)
        raise Unsupported('expression ' + t)

    def idx_text(self, i):
        return f'toString ({i["e"]})' if i['k'] == 'int' else lstr('?')

    def pkg_var(self, pkg, n):
        ty, init, _ = self.w.pkgs[pkg]['vars'][n]
        if init is None:
            raise Unsupported('package variable without initialiser')
        sub = Exec(self.w, pkg, f'{pkg}.{n}', self.depth + 1)
        v, ev = sub.expr(init, {'vars': {}, 'fields': {}, 'defers': []})
        if ev != '[]':
            # initialiser with events (GroupOrder = BigIntFromC(...)) — value only
            return V('opaque', d=f'{pkg}.{n}')
        return v

    # ---- calls
    def call(self, e, st):
        f, args = e[1], e[2]
        fu = unparse(f)
        # conversions and builtins
        if fu in ('int', 'uintptr', 'C.size_t', 'C.int', 'C.uint32_t', 'AttributeIndex', 'C.uintptr_t') and len(args) == 1:
            v, ev = self.expr(args[0], st)
            if v['k'] == 'int':
                return V('int', e=v['e'], conv=fu), ev
            if v['k'] == 'cptr' and fu == 'uintptr':
                return V('ptrint', p=v), ev
            if v['k'] == 'opaque':
                return V('int', e=f'E.i {key("conv", unparse(e))}', conv=fu), ev
            raise Unsupported(f'{fu} of {v["k"]}')
        if fu in ('C._Bool', 'bool') and len(args) == 1:
            v, ev = self.expr(args[0], st)
            if v['k'] == 'bool':
                return V('bool', e=v['e'], text=v.get('text', unparse(args[0])), conv=fu), ev
            if v['k'] == 'cresult':
                return V('bool', e=f'(E.b {key("call", *v["keyparts"])} = true)', text=v['text']), ev
            raise Unsupported(f'{fu} of {v["k"]}')
        if fu == 'unsafe.Pointer' and len(args) == 1:
            v, ev = self.expr(args[0], st)
            if v['k'] == 'cptr':
                p = dict(v); p['void'] = True; p['text'] = unparse(e)
                return p, ev
            if v['k'] == 'ptrint':
                p = dict(v['p']); p['void'] = True; p['text'] = unparse(e)
                return p, ev
            if v['k'] == 'nilptr':
                return v, ev
            raise Unsupported('unsafe.Pointer of ' + v['k'])
        if fu == 'len' and len(args) == 1:
            v, ev = self.expr(args[0], st)
            if v['k'] in ('slice', 'pslice', 'map', 'islice'):
                return self.Int(v['len']), ev
            if v['k'] == 'opaque':
                return self.Int(f'E.i {key("len", unparse(args[0]))}'), ev
            raise Unsupported('len of ' + v['k'])
        if fu == 'make':
            ty = unparse(args[0])
            n, ev = self.expr(args[1], st)
            if n['k'] != 'int':
                raise Unsupported('make length')
            nm = self.gen('make')
            if ty == '[]byte':
                return V('slice', name=nm, len=n['e'], esz='1', elem='byte'), self.cat(ev, f'[.alloc {lstr("make " + ty)} ({n["e"]})]')
            if ty == '[]int':
                return V('islice', name=nm, len=n['e']), ev
            raise Unsupported('make ' + ty)
        if fu == 'new' and len(args) == 1:
            ty = unparse(args[0])
            nm = self.gen('new')
            if ty.startswith('C.'):
                c = self.w.ctype(ty[2:])
                return V('cptr', cty=c, blk=nm, size=f'E.sz {lstr(c)}', off='0', text=nm, goobj=True, objpath=nm), '[]'
            pkg = self.pkg
            tn = ty
            if '.' in ty:
                pkg, tn = ty.split('.', 1)
            if pkg in self.w.pkgs and tn in self.w.pkgs[pkg]['types']:
                return V('gptr', pkg=pkg, ty=tn, path=nm), '[]'
            return V('opaque', d='new ' + ty), '[]'
        if fu == 'panic':
            return V('panic', msg=unparse(args[0]) if args else ''), '[]'
        if fu == 'append':
            raise Unsupported('append')
        # conversion to a pointer type: (*C.T)(x)
        if f[0] == 'paren' and f[1][0] == 'un' and f[1][1] == '*':
            ty = unparse(f[1][2])
            v, ev = self.expr(args[0], st)
            if ty.startswith('C.'):
                c = self.w.ctype(ty[2:])
                if v['k'] == 'cptr':
                    p = dict(v); p['cty'] = c; p.pop('void', None); p['text'] = unparse(e)
                    if v.get('goobj') and v['cty'] is not None and v['cty'] != c:
                        p['recast_from'] = v['cty']
                    return p, ev
                if v['k'] in ('nilptr', 'nil'):
                    return V('nilptr', cty=c), ev
                raise Unsupported('pointer conversion of ' + v['k'])
            if ty.startswith('['):
                if v['k'] == 'cfun':
                    return v, ev      # (*[0]byte)(C.f): cgo's spelling of a C function pointer
                return V('opaque', d='arrayview'), ev
            if v['k'] == 'cptr':
                pkg, tn = (ty.split('.', 1) if '.' in ty else (self.pkg, ty))
                return V('gptr', pkg=pkg, ty=tn, path=v['blk']), ev
            raise Unsupported('conversion to *' + ty)
        # C library
        if fu in ('C.malloc', 'C.realloc'):
            n, ev = self.expr(args[-1], st)
            ev0 = '[]'
            if fu == 'C.realloc':
                _, ev0 = self.expr(args[0], st)
            if n['k'] != 'int':
                raise Unsupported('malloc size')
            nm = self.gen('blk')
            return (V('cptr', cty=None, blk=nm, size=n['e'], off='0', text=fu, void=True),
                    self.cat(ev0, ev, f'[.alloc {lstr(fu[2:])} ({n["e"]})]'))
        if fu == 'C.free':
            _, ev = self.expr(args[0], st)
            return V('unit'), ev
        if fu in ('C.memset', 'C.memcpy'):
            evs = []
            ptrs = []
            for a in args[:-1]:
                v, ev = self.expr(a, st)
                evs.append(ev); ptrs.append(v)
            n, ev = self.expr(args[-1], st)
            evs.append(ev)
            for p in ptrs[:1 if fu == 'C.memset' else 2]:
                if p['k'] != 'cptr':
                    raise Unsupported(fu + ' of ' + p['k'])
                evs.append(f'[.access {lstr(fu[2:] + " " + p.get("text", "?"))} ({p["size"]}) ({p["off"]}) ({n["e"]})]')
                if p.get('sub_of') is not None:
                    o = p['sub_of']
                    evs.append(f'[.access {lstr(fu[2:] + " (enclosing) " + p.get("text", "?"))} ({o["size"]}) ({o["off"]}) (E.sz {lstr(o["cty"])})]')
            return V('unit'), self.cat(*evs)
        if f[0] == 'sel' and f[1] == ('id', 'C') and f[2] in self.w.protos:
            return self.ccall(f[2], args, st, unparse(e))
        if f[0] == 'sel' and f[1] == ('id', 'C'):
            raise Unsupported('unknown C function ' + f[2])
        # the three byte-level helpers of lang/go/internal are primitives with a contract (their own bodies are
        # modelled by hand in Impl/GoMem.lean and pinned by digest): they touch exactly `size` bytes behind the pointer
        if fu in ('internal.BigIntToC', 'BigIntToC', 'internal.BigIntFromC', 'BigIntFromC', 'internal.PointerToByteSlice', 'PointerToByteSlice') \
                and not (self.pkg == 'internal' and self.qual.split('.')[-1] == fu.split('.')[-1]):
            short = fu.split('.')[-1]
            pi, ni = {'BigIntToC': (0, 1), 'BigIntFromC': (1, 2), 'PointerToByteSlice': (0, 1)}[short]
            evs, vals = [], []
            for a in args:
                v, ev = self.expr(a, st)
                vals.append(v); evs.append(ev)
            p, n = vals[pi], vals[ni]
            if p['k'] != 'cptr' or n['k'] != 'int':
                raise Unsupported(f'{short} of {p["k"]},{n["k"]}')
            evs.append(f'[.access {lstr(short + " " + p.get("text", "?"))} ({p["size"]}) ({p["off"]}) ({n["e"]})]')
            if short == 'PointerToByteSlice':
                return V('slice', name=self.gen('view'), len=n['e'], esz='1', elem='byte'), self.cat(*evs)
            return (p if short == 'BigIntToC' else V('opaque', d='big.Int')), self.cat(*evs)
        # Go functions of the bindings: inline
        tgt = self.local_target(e, st)
        if tgt is not None:
            return self.inline(tgt, None, args, st, unparse(e))
        if f[0] == 'sel':
            recv, ev = self.expr(f[1], st)
            if recv['k'] in ('gptr', 'gobj'):
                q = recv['ty'] + '.' + f[2]
                if q in self.w.pkgs[recv['pkg']]['funcs']:
                    return self.inline((recv['pkg'], q), recv, args, st, unparse(e))
            # library calls (sha3, big.Int, sort, runtime): evaluate arguments for their events
            evs = [ev]
            for a in args:
                _, eva = self.expr(a, st)
                evs.append(eva)
            if fu in ('runtime.SetFinalizer', 'sort.Ints', 'sha3.NewShake256', 'shake.Write', 'shake.Read', 'rand.Read'):
                return V('opaque', d=fu), self.cat(*evs)
            if recv['k'] in ('opaque', 'bigint') or fu.startswith('big.') or fu.startswith('result.') or fu.startswith('scalar.'):
                if f[2] in ('Sign', 'Bytes', 'SetBytes'):
                    raise Unsupported('big.Int arithmetic (' + fu + ')')
                return V('opaque', d=fu), self.cat(*evs)
        raise Unsupported('call of ' + fu)

    def local_target(self, e, st):
        f = e[1]
        fu = unparse(f)
        if fu.split('.')[-1] in ('BigIntToC', 'BigIntFromC', 'PointerToByteSlice'):
            return None
        if f[0] == 'id' and f[1] in self.w.pkgs[self.pkg]['funcs'] and f[1] not in st['vars']:
            return (self.pkg, f[1])
        if f[0] == 'sel' and f[1][0] == 'id' and f[1][1] in self.w.pkgs and f[1][1] not in st['vars'] and f[2] in self.w.pkgs[f[1][1]]['funcs']:
            return (f[1][1], f[2])
        return None

    def inline(self, tgt, recv, args, st, text):
        pkg, q = tgt
        if self.depth > 4:
            raise Unsupported('inlining depth')
        decl = self.w.pkgs[pkg]['funcs'][q]
        vals, evs = [], []
        for a in args:
            v, ev = self.expr(a, st)
            vals.append(v); evs.append(ev)
        sub = Exec(self.w, pkg, f'{pkg}.{q}', self.depth + 1)
        sub.fresh = self.fresh + 100 * (self.depth + 1)
        sub.calls = self.calls
        env = {}
        if decl[1]:
            env[decl[1][0]] = recv
        for (pn, pt), v in zip(decl[3], vals):
            env[pn] = v
        if len(decl[3]) != len(vals):
            raise Unsupported('argument count of ' + q)
        st2 = {'vars': env, 'fields': st['fields'], 'defers': []}
        hold = {'ret': []}

        def k(st3, ret):
            hold['ret'].append(ret)
            st['fields'].update(st3['fields'])
            return '[]'
        body = sub.block(decl[5][1], st2, k)
        self.fresh = sub.fresh
        rets = [r for r in hold['ret'] if r is not None and r.get('k') not in ('unit',)]
        val = V('opaque', d='result of ' + text)
        kinds = {r['k'] for r in rets}
        if len(rets) == 1:
            val = rets[0]
        elif rets and kinds <= {'nil', 'nilptr', 'cptr'}:
            # e.g. convertAttributeList: nil or the list
            nn = [r for r in rets if r['k'] == 'cptr']
            if len(nn) == 1:
                val = dict(nn[0]); val['maybe_nil'] = True
        elif rets and kinds == {'int'}:
            val = V('int', e=f'E.i {key("call", text)}')
        elif rets and kinds == {'bool'}:
            val = V('bool', e=f'(E.b {key("call", text)} = true)', text=text)
        return val, self.cat(*evs, body)

    def ccall(self, name, args, st, text):
        ret, ptys = self.w.protos[name]
        evs, largs, tys, texts = [], [], [], []
        for a in args:
            v, ev = self.expr(a, st)
            evs.append(ev)
            at = unparse(a)
            texts.append(at)
            tys.append(self.ctype_of(v))
            fields = [f'text := {lstr(at)}']
            if v['k'] == 'cptr' and not v.get('goobj'):
                fields.append(f'avail := some (({v["size"]}) - ({v["off"]}))')
            if v['k'] == 'int':
                fields.append(f'val := some ({v["e"]})')
            if v['k'] == 'bool':
                fields.append(f'flag := some (decide ({v["e"]}))')
            if v['k'] == 'cptr' and v.get('goobj'):
                caps = []
                path = v.get('objpath') or v['blk']
                for fn, fty in self.w.structs.get(v['cty'] or '', []):
                    if self.w.ctype(fty).endswith('*'):
                        full = path + '.' + fn
                        if full in st['fields']:
                            fv = st['fields'][full]
                            if fv['k'] == 'cptr':
                                caps.append(f'({lstr(fn)}, ({fv["size"]}) - ({fv["off"]}))')
                            elif fv['k'] in ('nil', 'nilptr'):
                                caps.append(f'({lstr(fn)}, 0)')
                        else:
                            caps.append(f'({lstr(fn)}, E.i {key("cap", full)})')
                if caps:
                    fields.append('caps := ' + llist(caps))
            largs.append('{ ' + ', '.join(fields) + ' }')
        self.calls.append((name, tys, texts))
        ev = f'[.ccall {lstr(name)} {llist(largs)}]'
        cret = self.w.ctype(ret)
        if cret in ('_Bool',):
            val = V('cresult', text=text, ctype=cret, keyparts=[name] + texts)
        elif cret in ('size_t', 'int', 'unsigned int', 'uint32_t'):
            val = V('int', e=f'E.i {key("call", name, *texts)}', ctype=cret)
        elif cret == 'void':
            val = V('unit')
        else:
            val = V('opaque', d='C result')
        return val, self.cat(*evs, ev)

    def ctype_of(self, v):
        k = v['k']
        if k == 'cptr':
            if v.get('void') or v['cty'] is None:
                return 'void*'
            return v['cty'] + '*'
        if k == 'nilptr':
            return (v['cty'] + '*') if v.get('cty') else 'void*'
        if k == 'int':
            c = v.get('conv')
            return {'C.size_t': 'size_t', 'C.int': 'int', 'C.uint32_t': 'uint32_t'}.get(c, v.get('ctype', 'go-int'))
        if k == 'bool':
            return '_Bool' if v.get('conv') == 'C._Bool' else 'go-bool'
        if k == 'cfun':
            return fn_pointer_type(self.w, v['n'])
        if k == 'cobj':
            return v['cty']
        if k == 'opaque':
            return 'opaque:' + v['d']
        return k


def measure_sizes(repo, w):
    names = sorted(set(w.structs) | {n for n in w.typedefs})
    arrs = sorted({t for fs in w.structs.values() for _, t in fs if '[' in t and 'unnamed' not in t})
    with tempfile.TemporaryDirectory(prefix='go2lean_') as td:
        src = os.path.join(td, 'sz.c')
        with open(src, 'w') as f:
            f.write('#include <stdio.h>\n#include <stdint.h>\n')
            for h in C_HEADERS:
                f.write(f'#include "{h}"\n')
            f.write('int main(void) {\n')
            for n in names:
                f.write(f'  printf("%s %zu\\n", "{n}", sizeof({n}));\n')
            for t in arrs:
                f.write(f'  printf("%s %zu\\n", "{w.ctype(t)}", sizeof({t}));\n')
            f.write('  return 0; }\n')
        exe = os.path.join(td, 'sz')
        r = subprocess.run(['gcc', '-std=c11', '-I', os.path.join(repo, 'include'), src, '-o', exe], capture_output=True, text=True)
        if r.returncode != 0:
            raise SystemExit('go2lean: cannot compile the sizeof probe:\n' + r.stderr[-2000:])
        out = subprocess.run([exe], capture_output=True, text=True).stdout
    res = {}
    for line in out.splitlines():
        n, v = line.rsplit(' ', 1)
        res[n] = int(v)
    return res


def fn_pointer_type(world, cname):
    ret, ps = world.protos[cname]
    return f'{world.ctype(ret)} (*)({", ".join(world.ctype(p) for p in ps)})'


def main():
    accept = '--accept' in sys.argv
    if accept:
        sys.argv.remove('--accept')
    repo = sys.argv[1] if len(sys.argv) > 1 else os.environ.get('JEDI_REPO', '/repo')
    out = sys.argv[2] if len(sys.argv) > 2 else os.path.join(VERIF, 'lean', 'JediVerif', 'Gen', 'GoBindings.lean')
    try:
        w = World(repo)
    except GoSyntax as ex:
        raise SystemExit(f'go2lean: {ex}')
    L = []
    A = L.append
    A('/- GENERATED by translate/go2lean.py from lang/go/**/*.go and the C headers — do not edit. -/')
    A('import JediVerif.Impl.GoMem')
    A('set_option maxRecDepth 4000')
    A('namespace Jedi.Gen.Go')
    A('open Jedi.Go')
    A('')
    # C tables
    A('/-- C prototypes of the three headers: name, return type, parameter types (const stripped, typedef chains resolved). -/')
    A('def cProtos : List (String × String × List String) := [')
    A(',\n'.join(f'  ({lstr(n)}, {lstr(w.ctype(r))}, {llist([lstr(w.ctype(p)) for p in ps])})' for n, (r, ps) in sorted(w.protos.items())))
    A(']')
    A('/-- exported C variables and their types. -/')
    A('def cVars : List (String × String) := [')
    A(',\n'.join(f'  ({lstr(n)}, {lstr(w.ctype(t))})' for n, t in sorted(w.cvars.items())))
    A(']')
    A('/-- alias typedefs of the C headers: alias, the type it names directly. -/')
    A('def cAliases : List (String × String) := [')
    alias_rows = []
    for n, u in sorted(w.typedefs.items()):
        u2 = re.sub(r'\bconst\b', '', u).strip()
        if u2.startswith('embedded_pairing'):
            alias_rows.append('  (' + lstr(n) + ', ' + lstr(u2) + ')')
    A(',\n'.join(alias_rows))
    A(']')
    # sizeof of every C type the bindings mention (host ABI: the Go bindings are built with cgo for the host)
    A('/-- sizeof of the C types, measured with the host C compiler. -/')
    A('def cSizes : List (String × Int) := [')
    A(',\n'.join(f'  ({lstr(n)}, {v})' for n, v in sorted(measure_sizes(repo, w).items())))
    A(']')
    # Go struct types
    rows = []
    for pkg in PKGS:
        for tn, ty in w.pkgs[pkg]['types'].items():
            if ty[0] == 'struct':
                c = w.go_struct_data(pkg, tn)
                rows.append(f'  ({lstr(pkg + "." + tn)}, {lstr(c or "?")})')
    A('/-- Go struct types and the C type of their `Data` member. -/')
    A('def goTypes : List (String × String) := [')
    A(',\n'.join(rows))
    A(']')
    # package variables bound to C symbols
    rows = []
    for pkg in PKGS:
        for vn, (ty, init, fn) in w.pkgs[pkg]['vars'].items():
            u = unparse(init) if init else ''
            m = re.match(r'^\(\*(\w+)\)\(unsafe\.Pointer\(C\.(\w+)\)\)$', u)
            if m:
                rows.append(f'  ({lstr(pkg + "." + vn)}, {lstr(pkg + "." + m.group(1))}, {lstr(m.group(2))})')
    A('/-- package variables that view a C object as a Go struct: variable, Go type, C symbol. -/')
    A('def goConsts : List (String × String × String) := [')
    A(',\n'.join(rows))
    A(']')
    # self-check of the parser against an independent, purely textual reading: for every function, the C functions named in its
    # source text (regex over the comment-stripped body) are exactly the C call nodes of its syntax tree
    def ast_ccalls(n, acc):
        if isinstance(n, (tuple, list)):
            if len(n) == 3 and n[0] == 'call' and isinstance(n[1], tuple) and n[1][0] == 'sel' and n[1][1] == ('id', 'C'):
                acc.append(n[1][2])
            for x in n:
                ast_ccalls(x, acc)
        return acc
    for pkg in PKGS:
        d = os.path.join(repo, 'lang', 'go', pkg)
        for fnm in sorted(os.listdir(d)):
            if not fnm.endswith('.go') or fnm.endswith('_test.go'):
                continue
            txt = open(os.path.join(d, fnm), encoding='utf-8').read()
            txt = re.sub(r'/\*.*?\*/', ' ', txt, flags=re.S); txt = re.sub(r'//[^\n]*', '', txt)
            textual = sorted(re.findall(r'\bC\.([A-Za-z_][A-Za-z_0-9]*)\s*\(', txt))
            _, decls = parse_file(os.path.join(d, fnm))
            fromast = sorted(ast_ccalls(decls, []))
            if textual != fromast:
                raise SystemExit(f'go2lean: {fnm}: the parser and a textual scan disagree on the C calls: '
                                 f'only in text {sorted(set(textual) - set(fromast))}, only in tree {sorted(set(fromast) - set(textual))}, counts {len(textual)}/{len(fromast)}')
    # functions
    fnrows, callrows, models, unmodelled, digests = [], [], [], [], []
    for pkg in PKGS:
        for q, fn in w.pkgs[pkg]['order']:
            decl = w.pkgs[pkg]['funcs'][q]
            dig = hashlib.sha256(sexp(decl).encode()).hexdigest()[:16]
            params = [(pn or '_') + ' ' + unparse(pt) for pn, pt in decl[3]]
            digests.append((pkg + '.' + q, dig))
            fnrows.append(f'  {{ file := {lstr(fn)}, name := {lstr(pkg + "." + q)}, params := {llist([lstr(p) for p in params])}, digest := {lstr(dig)} }}')
            ex = Exec(w, pkg, f'{pkg}.{q}')
            try:
                term = ex.run_function(decl)
                # no C call of the body may be silently dropped by the executor (a branch it decided statically, an early return)
                own = {c for c in ast_ccalls(decl, []) if c in w.protos}
                seen = set(re.findall(r'\.ccall "(\w+)"', term))
                if not own <= seen:
                    raise Unsupported('C calls not reached by the symbolic execution: ' + ', '.join(sorted(own - seen)))
                models.append((f'{pkg}.{q}', term))
                for cname, tys, texts in ex.calls:
                    callrows.append(f'  {{ caller := {lstr(pkg + "." + q)}, callee := {lstr(cname)}, argTys := {llist([lstr(t) for t in tys])}, argTexts := {llist([lstr(t) for t in texts])} }}')
            except Unsupported as u:
                unmodelled.append((f'{pkg}.{q}', str(u)))
    A('/-- every function of the bindings, with the digest of its parsed body. -/')
    A('def goFns : List GoFn := [')
    A(',\n'.join(fnrows))
    A(']')
    A('/-- every C call made while executing a modelled function (package-local callees inlined), with the C type of each argument. -/')
    A('def goCalls : List GoCall := [')
    A(',\n'.join(dict.fromkeys(callrows)))
    A(']')
    A('/-- the function-pointer parameter types that the callbacks of lang/go/internal are passed for. -/')
    A('def callbackTypes : List (String × String) := [')
    A(',\n'.join(f'  ({lstr(n)}, {lstr(fn_pointer_type(w, n))})' for n in ('go_random_bytes', 'go_hash_fill')))
    A(']')
    A('/-- functions the executor does not model (reason); their digest is pinned instead. -/')
    A('def unmodelled : List (String × String) := [')
    A(',\n'.join(f'  ({lstr(n)}, {lstr(r)})' for n, r in unmodelled))
    A(']')
    A('')
    for n, term in models:
        A(f'def «{n}» (E : Env) : List Ev :=\n  {term}\n')
    A('/-- the environment keys each model reads (for printing a failing environment). -/')
    A('def modelKeys : List (String × List Key × List Key × List String) := [')
    rows = []
    for n, term in models:
        ik = sorted(set(re.findall(r'E\.i (\("[a-z]+", ' + KEYLIST + r'\))', term)))
        bk = sorted(set(re.findall(r'E\.b (\("[a-z]+", ' + KEYLIST + r'\))', term)))
        sk = sorted(set(re.findall(r'E\.sz ("[^"]+")', term)))
        rows.append(f'  ({lstr(n)}, {llist(ik)}, {llist(bk)}, {llist(sk)})')
    A(',\n'.join(rows))
    A(']')
    A('def models : List (String × (Env → List Ev)) := [')
    A(',\n'.join(f'  ({lstr(n)}, «{n}»)' for n, _ in models))
    A(']')
    A('end Jedi.Gen.Go')
    text = '\n'.join(L) + '\n'
    old = open(out).read() if os.path.exists(out) else None
    if old != text:
        with open(out, 'w') as f:
            f.write(text)
    # the generated theorems
    L = []
    A = L.append
    A('/- GENERATED by translate/go2lean.py — do not edit.  One memory-safety theorem per modelled function of lang/go. -/')
    A('import JediVerif.Gen.GoBindings')
    A('import JediVerif.Impl.GoMemTac')
    A('set_option maxRecDepth 4000')
    A('namespace Jedi.Gen.Go')
    A('open Jedi.Go')
    A('')
    bufs = []
    A('/-! memory safety of every modelled function, for every environment (the tactic `go_mem` is in Impl/GoMemTac.lean;\n'
      'the preconditions `Pre` - what a valid call is - are hand-written in Impl/GoMem.lean) -/')
    for n, term in models:
        haves = []
        for t in sorted(set(re.findall(r'E\.sz "([^"]+)"', term))):
            haves.append(f'have := h.sz_pos {lstr(t)}')
        for kx in sorted(set(re.findall(r'E\.i \("len", (\[[^\]]*\])\)', term))):
            haves.append(f'have := h.len_nonneg {kx}')
        for kx in sorted(set(re.findall(r'E\.i \("cvar", (\[[^\]]*\])\)', term))):
            haves.append(f'have := h.cvar_pos {kx}')
        for fnm, rest in sorted(set(re.findall(r'E\.i \("call", \["(\w+_get_marshalled_length)"((?:, "[^"]*")*)\]\)', term))):
            haves.append(f'have := h.lenfn_pos {lstr(fnm)} [{rest[2:]}] (by decide)')
        for fnm, rest in sorted(set(re.findall(r'E\.i \("call", \["(\w+_set_length)"((?:, "[^"]*")*)\]\)', term))):
            haves.append(f'have := h.setlen_ge {lstr(fnm)} [{rest[2:]}] (by decide)')
        A(f'theorem «{n}.mem» (E : Env) (h : Valid E) (hp : Pre {lstr(n)} E) : AllOk («{n}» E) := by')
        for hv in haves:
            A('  ' + hv)
        A(f'  go_mem «{n}»')
        A('')
        if True:
            A(f'theorem «{n}.buf» (E : Env) (h : Valid E) (hp : Pre {lstr(n)} E) : AllP (bufOk E) («{n}» E) := by')
            for hv in haves:
                A('  ' + hv)
            A(f'  go_buf «{n}»')
            A('')
            bufs.append(n)
    A('/-- every buffer a modelled function hands to a C function is at least as long as the C function reads or writes (`bufNeeds`). -/')
    A('theorem buffers_sufficient (n : String) (f : Env → List Ev) (hm : (n, f) ∈ models) (E : Env) (hv : Valid E) (hp : Pre n E) : AllP (bufOk E) (f E) := by')
    A('  simp only [models, List.mem_cons, Prod.mk.injEq, List.not_mem_nil, or_false] at hm')
    for i, (n, term) in enumerate(models):
        tac = f'exact «{n}.buf» E hv hp' if n in bufs else f'simp only [«{n}», allP_nil]'
        if i + 1 < len(models):
            A('  rcases hm with ⟨rfl, rfl⟩ | hm')
            A(f'  · {tac}')
        else:
            A('  obtain ⟨rfl, rfl⟩ := hm')
            A(f'  {tac}')
    A('/-- every modelled function of the bindings, in every environment in which the call is valid, allocates non-negative sizes,\n'
      'touches C memory only inside the blocks it allocated, indexes Go slices in range and does not panic. -/')
    A('theorem mem_safe (n : String) (f : Env → List Ev) (hm : (n, f) ∈ models) (E : Env) (hv : Valid E) (hp : Pre n E) : AllOk (f E) := by')
    A('  simp only [models, List.mem_cons, Prod.mk.injEq, List.not_mem_nil, or_false] at hm')
    for i, (n, _) in enumerate(models):
        if i + 1 < len(models):
            A('  rcases hm with ⟨rfl, rfl⟩ | hm')
            A(f'  · exact «{n}.mem» E hv hp')
        else:
            A('  obtain ⟨rfl, rfl⟩ := hm')
            A(f'  exact «{n}.mem» E hv hp')
    A('end Jedi.Gen.Go')
    text2 = '\n'.join(L) + '\n'
    out2 = out.replace('.lean', 'Thms.lean')
    old2 = open(out2).read() if os.path.exists(out2) else None
    if old2 != text2:
        with open(out2, 'w') as f:
            f.write(text2)
    if accept:
        exp = os.path.join(VERIF, 'lean', 'JediVerif', 'Impl', 'GoExpected.lean')
        with open(exp, 'w') as f:
            f.write('/- The digests of the parsed Go functions the hand-written parts of the Go model (Impl/GoMem.lean: `Pre`, `bufNeeds`;\n'
                    'Properties/GoBindings.lean: the byte helpers) were written against.  Refreshed ONLY by `translate/go2lean.py --accept`\n'
                    'after re-reading a changed function; never at check time. -/\n'
                    'namespace Jedi.Impl.GoExpected\n'
                    'def expected : List (String × String) := [\n')
            f.write(',\n'.join(f'  ({lstr(n)}, {lstr(d)})' for n, d in digests))
            f.write('\n]\nend Jedi.Impl.GoExpected\n')
        print('go2lean: accepted', len(digests), 'digests ->', exp)
    print(f'go2lean: {len(fnrows)} functions, {len(models)} modelled, {len(unmodelled)} digest-only, {len(set(callrows))} C calls -> {out}'
          + (' (unchanged)' if old == text else ''))
    for n, r in unmodelled:
        print(f'  digest-only: {n}: {r}')


if __name__ == '__main__':
    main()
