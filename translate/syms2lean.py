#!/usr/bin/env python3
"""T6: symbol / relocation tables of the compiled core library.

usage: syms2lean.py [repo] [outfile]
       (defaults: /repo, <verif>/lean/JediVerif/Gen/Symbols.lean)

Every library source (src/core/*.cpp, src/bls12_381/*.cpp, src/wkdibe/*.cpp, src/lqibe/*.cpp and,
for the assembly configuration, src/core/arch/x86_64/*.cpp and *.s) is compiled from the CURRENT
working tree into object files in a temporary directory, once per configuration:

  asm         g++ -std=c++17 -O2 -I include            (+ `as` for the .s files)
  portable64  g++ -std=c++17 -O2 -I include -DDISABLE_ASM                      (no arch files)
  portable32  g++ -std=c++17 -O2 -I include -DDISABLE_ASM -U__SIZEOF_INT128__  (no arch files)
  embedded    g++ -std=c++17 -I include -Os -ffunction-sections -fdata-sections -fno-builtin
                  -fno-threadsafe-statics -DDISABLE_ASM      (the Makefile's embedded flags, host target)

and the objects are inspected with `readelf -SW`, `readelf -sW`, `readelf -rW`, `objdump -dr -w`
and `c++filt`:

 (a) undefined_<cfg>   symbols undefined in some object and defined in no object of the same
                       configuration (raw names), i.e. what the library needs from outside;
 (b) writable_<cfg>    every named object in a writable allocated section (flags W+A: .data*, .bss*,
                       .tdata, .tbss, COMMON), *excluding* .data.rel.ro*, and excluding the loader
                       tables .init_array/.fini_array/.ctors/.dtors/.got* (listed separately in
                       init_array_<cfg>); demangled name and size; COMDAT copies merged;
                       writable_unnamed_<cfg>: bytes of such sections covered by no symbol;
 (c) for every relocation inside an executable section whose target (symbol, or section+offset
     resolved through the object's symbol table using the instruction's end address) is a
     writable object, the instruction is decoded from `objdump -dr` and classified
        store  the rip-relative operand is the destination (last AT&T operand) of an instruction
               that is not known to only read it; lock-prefixed/xchg/xadd/cmpxchg always;
               anything not understood is a store (conservative)
        addr   the address is materialised (lea, GOT load, absolute immediate)
        read   loads, compares, `call/jmp *sym(%rip)`
     stores_<cfg> = (symbol, containing function [raw name]) of all `store`s,
     addr_taken_<cfg> likewise for `addr`, referenced_<cfg> = all writable symbols with any
     text reference; data_refs_<cfg> = writable symbols whose address is stored in a data section;
 (d) the forbidden names are simply members (or not) of undefined_<cfg>; the Lean side checks.

Any object-file construct that is not understood makes the translator exit non-zero naming it.
The output file is rewritten only if its content changes.
"""
import os, re, subprocess, sys, tempfile, shutil
from concurrent.futures import ThreadPoolExecutor

HERE = os.path.dirname(os.path.abspath(__file__))
VERIF = os.path.dirname(HERE)

BASE = ["g++", "-std=c++17"]
CONFIGS = [
    ("asm", ["-O2"], True),
    ("portable64", ["-O2", "-DDISABLE_ASM"], False),
    ("portable32", ["-O2", "-DDISABLE_ASM", "-U__SIZEOF_INT128__"], False),
    ("embedded", ["-Os", "-ffunction-sections", "-fdata-sections", "-fno-builtin", "-fno-threadsafe-statics",
                  "-DDISABLE_ASM"], False),
]
SRC_DIRS = ["src/core", "src/bls12_381", "src/wkdibe", "src/lqibe"]
ARCH_DIR = "src/core/arch/x86_64"

EXCLUDED_WRITABLE_PREFIXES = (".data.rel.ro", ".init_array", ".fini_array", ".preinit_array", ".ctors", ".dtors", ".got")

# mnemonics whose *last* operand is only read
READ_ONLY_LAST = ("cmp", "test", "push", "call", "jmp", "mul", "div", "idiv", "fld", "fild", "fcom", "ficom",
                  "fadd", "fsub", "fmul", "fdiv", "fiadd", "fisub", "fimul", "fidiv", "prefetch", "nop",
                  "ldmxcsr", "vldmxcsr", "fldcw", "ucomis", "comis", "vucomis", "vcomis", "ptest", "vptest")
READ_ONLY_LAST_EXACT = ("bt", "btw", "btl", "btq")
ALWAYS_STORE = ("xchg", "xadd", "cmpxchg")
PREFIXES = ("lock", "rep", "repz", "repnz", "repe", "repne", "notrack", "bnd", "data16", "addr32",
            "cs", "ds", "es", "fs", "gs", "ss", "rex", "rex.W")


def die(msg):
    sys.stderr.write("syms2lean: ERROR: " + msg + "\n")
    sys.exit(1)


def run(cmd, what, stdin=None):
    r = subprocess.run(cmd, stdout=subprocess.PIPE, stderr=subprocess.PIPE, text=True, input=stdin)
    if r.returncode != 0:
        die("%s failed (%s):\n%s" % (what, " ".join(cmd), r.stderr[-4000:]))
    return r.stdout


def sources(repo, with_arch):
    out = []
    for d in SRC_DIRS:
        full = os.path.join(repo, d)
        if os.path.isdir(full):
            out += [d + "/" + f for f in sorted(os.listdir(full)) if f.endswith(".cpp")]
            bad = [f for f in os.listdir(full) if f.endswith((".c", ".cc", ".cxx", ".S", ".s"))]
            if bad:
                die("%s contains sources of a kind the translator does not build: %s" % (d, ", ".join(sorted(bad))))
    if with_arch:
        full = os.path.join(repo, ARCH_DIR)
        if not os.path.isdir(full):
            die("missing %s" % ARCH_DIR)
        for f in sorted(os.listdir(full)):
            if f.endswith((".cpp", ".s")):
                out.append(ARCH_DIR + "/" + f)
            else:
                die("%s/%s: unknown kind of source" % (ARCH_DIR, f))
    return out


def build(repo, tmp, cfg, flags, with_arch):
    srcs = sources(repo, with_arch)
    jobs, objs = [], []
    odir = os.path.join(tmp, cfg)
    os.makedirs(odir)
    for rel in srcs:
        obj = os.path.join(odir, re.sub(r"[^A-Za-z0-9]", "_", rel) + ".o")
        objs.append((rel, obj))
        if rel.endswith(".s"):
            jobs.append((["as", os.path.join(repo, rel), "-o", obj], "assembling %s" % rel))
        else:
            jobs.append((BASE + ["-I" + os.path.join(repo, "include")] + flags + ["-c", os.path.join(repo, rel), "-o", obj],
                         "compiling %s (%s)" % (rel, cfg)))
    with ThreadPoolExecutor(max_workers=os.cpu_count() or 4) as ex:
        res = list(ex.map(lambda j: subprocess.run(j[0], stdout=subprocess.PIPE, stderr=subprocess.PIPE, text=True), jobs))
    for (cmd, what), r in zip(jobs, res):
        if r.returncode != 0:
            die("%s failed (%s):\n%s" % (what, " ".join(cmd), r.stderr[-4000:]))
    return objs


# ------------------------------------------------------------------------------------------------
# ELF reading through binutils
# ------------------------------------------------------------------------------------------------

class Obj:
    pass


def read_object(rel, path):
    o = Obj()
    o.rel, o.path = rel, path
    o.sections = {}     # idx -> (name, type, flags, size)
    txt = run(["readelf", "-SW", path], "readelf -S %s" % rel)
    for line in txt.splitlines():
        m = re.match(r"\s*\[\s*(\d+)\]\s(.*)$", line)
        if not m:
            continue
        idx = int(m.group(1))
        rest = m.group(2)
        if idx == 0:
            continue
        # Name Type Address Off Size ES Flg Lk Inf Al   (Flg may be empty)
        mm = re.match(r"(\S+)\s+(\S+)\s+([0-9a-f]{16})\s+([0-9a-f]+)\s+([0-9a-f]+)\s+([0-9a-f]+)\s+([A-Za-z]*)\s*(\d+)\s+(\d+)\s+(\d+)\s*$", rest)
        if not mm:
            die("%s: cannot parse section header line %r" % (rel, line))
        o.sections[idx] = (mm.group(1), mm.group(2), mm.group(7), int(mm.group(5), 16))
    o.symbols = []      # dict(value,size,type,bind,ndx,name)
    txt = run(["readelf", "-sW", path], "readelf -s %s" % rel)
    for line in txt.splitlines():
        m = re.match(r"\s*\d+:\s+([0-9a-f]+)\s+(\d+|0x[0-9a-f]+)\s+(\S+)\s+(\S+)\s+(\S+)\s+(\S+)(?:\s+(.*))?$", line)
        if not m:
            continue
        size = int(m.group(2), 0)
        name = (m.group(7) or "").strip()
        o.symbols.append({"value": int(m.group(1), 16), "size": size, "type": m.group(3), "bind": m.group(4),
                          "ndx": m.group(6), "name": name})
    return o


def is_writable_section(name, flags):
    if "W" not in flags or "A" not in flags:
        return False
    return not name.startswith(EXCLUDED_WRITABLE_PREFIXES)


def demangle(names):
    names = sorted(set(names))
    if not names:
        return {}
    out = run(["c++filt"], "c++filt", stdin="\n".join(names) + "\n").splitlines()
    if len(out) != len(names):
        die("c++filt returned %d lines for %d names" % (len(out), len(names)))
    return dict(zip(names, out))


# ------------------------------------------------------------------------------------------------
# instruction classification
# ------------------------------------------------------------------------------------------------

def split_operands(s):
    out, depth, cur = [], 0, []
    for ch in s:
        if ch == "(":
            depth += 1
        elif ch == ")":
            depth -= 1
        if ch == "," and depth == 0:
            out.append("".join(cur).strip())
            cur = []
        else:
            cur.append(ch)
    if cur:
        out.append("".join(cur).strip())
    return out


def classify(insn, reloc_type):
    """insn: AT&T text without the comment.  Returns 'store' | 'addr' | 'read' | 'branch'."""
    toks = insn.split()
    if not toks:
        return "store"
    locked = False
    while toks and toks[0] in PREFIXES:
        if toks[0] == "lock":
            locked = True
        toks = toks[1:]
    if not toks:
        return "store"
    mn = toks[0]
    ops = split_operands(" ".join(toks[1:]))
    if "GOT" in reloc_type:
        return "addr"
    if reloc_type in ("R_X86_64_32", "R_X86_64_32S", "R_X86_64_64"):
        # absolute: either an immediate (address taken) or an absolute memory operand
        if any(re.fullmatch(r"\$0x[0-9a-f]+|\$\d+", x) for x in ops) and not any("(" in x for x in ops[-1:]):
            return "addr"
        return "store"
    rip = [i for i, x in enumerate(ops) if "(%rip)" in x]
    if not rip:
        if mn.startswith(("call", "j")) or mn in ("loop", "xbegin"):
            return "branch"
        return "store"          # not understood
    if locked or mn.startswith(ALWAYS_STORE):
        return "store"
    if mn.startswith("lea"):
        return "addr"
    if mn.startswith(("call", "jmp")):
        return "read" if ops[rip[0]].startswith("*") else "store"
    if rip[-1] != len(ops) - 1:
        return "read"
    if mn in READ_ONLY_LAST_EXACT or mn.startswith(READ_ONLY_LAST):
        return "read"
    if mn.startswith("imul") and len(ops) == 1:
        return "read"
    return "store"


# ------------------------------------------------------------------------------------------------

def analyse(objs, cfg):
    O = [read_object(rel, path) for (rel, path) in objs]
    defined, undefined = set(), set()
    for o in O:
        for s in o.symbols:
            if not s["name"] or s["type"] in ("SECTION", "FILE"):
                continue
            if s["ndx"] == "UND":
                undefined.add(s["name"])
            elif s["bind"] in ("GLOBAL", "WEAK", "UNIQUE"):
                defined.add(s["name"])
    external = sorted(undefined - defined)
    # the C interface: global FUNCTION and OBJECT symbols with unmangled embedded_pairing_* names (what a C consumer links against)
    c_exports = sorted({s["name"] for o in O for s in o.symbols
                        if s["name"].startswith("embedded_pairing_") and s["ndx"] != "UND" and s["bind"] == "GLOBAL" and s["type"] in ("FUNC", "OBJECT")})

    writable = []       # (raw, size, rel, section)
    unnamed = []        # ("rel:section", bytes)
    wsyms = {}          # per object: section idx -> sorted [(value,size,raw)]
    for o in O:
        per = {}
        for s in o.symbols:
            if not s["name"] or s["type"] in ("SECTION", "FILE") or s["ndx"] in ("UND", "ABS"):
                continue
            if s["ndx"] == "COM":
                writable.append((s["name"], s["size"], o.rel, "COMMON"))
                continue
            if not s["ndx"].isdigit():
                die("%s: symbol %s has section index %s, not handled" % (o.rel, s["name"], s["ndx"]))
            idx = int(s["ndx"])
            name, typ, flags, size = o.sections[idx]
            if is_writable_section(name, flags):
                if s["type"] not in ("OBJECT", "NOTYPE", "TLS", "COMMON"):
                    die("%s: symbol %s of type %s in writable section %s" % (o.rel, s["name"], s["type"], name))
                writable.append((s["name"], s["size"], o.rel, name))
                per.setdefault(idx, []).append((s["value"], s["size"], s["name"]))
        for idx in per:
            per[idx].sort()
        wsyms[o.rel] = per
        for idx, (name, typ, flags, size) in o.sections.items():
            if is_writable_section(name, flags) and size > 0:
                covered = set()
                for (v, sz, nm) in per.get(idx, []):
                    covered.update(range(v, v + sz))
                miss = size - len([b for b in covered if b < size])
                if miss:
                    unnamed.append(("%s:%s" % (o.rel, name), miss))

    def resolve(o, idx, off):
        for (v, sz, nm) in wsyms[o.rel].get(idx, []):
            if v <= off < v + max(sz, 1):
                return nm
        return None

    wnames = set(w[0] for w in writable)
    stores, addrs, referenced, data_refs, init_array = [], [], set(), [], []

    for o in O:
        secidx_by_name = {}
        for idx, (name, typ, flags, size) in o.sections.items():
            secidx_by_name.setdefault(name, []).append(idx)
        local_w = {}    # raw name -> True for writable symbols *defined* in this object
        sym_by_name = {}
        for s in o.symbols:
            if s["name"] and s["type"] not in ("SECTION", "FILE"):
                sym_by_name.setdefault(s["name"], s)

        def target_of(symtext, endadj, where):
            """symtext like 'name+0x10' / '.bss-0x4' / 'name'; returns raw writable symbol name or None"""
            m = re.fullmatch(r"(.+?)([+-]0x[0-9a-f]+)?", symtext)
            base, add = m.group(1), int(m.group(2) or "0", 16)
            if base in o_section_names:
                idxs = secidx_by_name[base]
                if len(idxs) != 1:
                    # several sections of that name (COMDAT): cannot tell which from objdump's text
                    cands = [i for i in idxs if is_writable_section(*o.sections[i][0:1], o.sections[i][2])]
                    if not cands:
                        return None
                    die("%s: %s: relocation against section %s, which is ambiguous in this object" % (o.rel, where, base))
                idx = idxs[0]
                name, typ, flags, size = o.sections[idx]
                if not is_writable_section(name, flags):
                    return None
                nm = resolve(o, idx, add + endadj)
                if nm is None:
                    die("%s: %s: reference to %s+%#x, which no symbol covers" % (o.rel, where, base, add + endadj))
                return nm
            if base in wnames:
                s = sym_by_name.get(base)
                if s is not None and s["ndx"] != "UND":
                    return base
                # undefined here, defined writable elsewhere in the library
                return base
            return None

        o_section_names = set(secidx_by_name)

        # ---- text relocations, from the disassembly
        txt = run(["objdump", "-dr", "-w", "--insn-width=16", o.path], "objdump -dr %s" % o.rel)
        cur_func, cur_sec = None, None
        last = None     # (addr, nbytes, text)

        def handle_reloc(pos, rtype, symtext):
            if last is None:
                die("%s: relocation without an instruction: %s %s" % (o.rel, rtype, symtext))
            addr, nbytes, text = last
            end = addr + nbytes
            if not (addr <= pos < end):
                die("%s: relocation at %#x is outside the preceding instruction %#x..%#x" % (o.rel, pos, addr, end))
            where = "%s+%#x" % (cur_func, addr)
            if rtype in ("R_X86_64_PC32", "R_X86_64_PLT32", "R_X86_64_GOTPCREL", "R_X86_64_GOTPCRELX",
                         "R_X86_64_REX_GOTPCRELX", "R_X86_64_GOTPC32", "R_X86_64_GOTTPOFF", "R_X86_64_TLSGD",
                         "R_X86_64_TLSLD", "R_X86_64_PC64"):
                endadj = end - pos
            elif rtype in ("R_X86_64_32", "R_X86_64_32S", "R_X86_64_64", "R_X86_64_TPOFF32", "R_X86_64_DTPOFF32"):
                endadj = 0
            else:
                die("%s: %s: relocation type %s in a text section is not handled" % (o.rel, where, rtype))
            tgt = target_of(symtext, endadj, where)
            if tgt is None:
                return
            if cur_func is None:
                die("%s: reference to %s outside any function label" % (o.rel, tgt))
            kind = classify(text, rtype)
            if "TLS" in rtype or "TPOFF" in rtype:
                kind = "addr"
            if kind == "branch":
                die("%s: %s: branch to writable symbol %s" % (o.rel, where, tgt))
            referenced.add(tgt)
            if kind == "store":
                stores.append((tgt, cur_func))
            elif kind == "addr":
                addrs.append((tgt, cur_func))

        for line in txt.splitlines():
            m = re.match(r"Disassembly of section (\S+):", line)
            if m:
                cur_sec, cur_func, last = m.group(1), None, None
                continue
            m = re.match(r"[0-9a-f]+ <(.+)>:$", line)
            if m:
                cur_func = m.group(1)
                continue
            f = line.split("\t")
            m = re.fullmatch(r"\s*([0-9a-f]+):", f[0])
            if m and len(f) >= 2 and re.fullmatch(r"(?:[0-9a-f]{2} )+\s*", f[1]):
                text = (f[2] if len(f) > 2 else "").split("#")[0].strip()
                last = (int(m.group(1), 16), len(f[1].split()), text)
                rest = f[3:]
                if len(rest) % 2 != 0:
                    die("%s: cannot parse the relocations on objdump line %r" % (o.rel, line))
                for k in range(0, len(rest), 2):
                    mr = re.fullmatch(r"\s*([0-9a-f]+):\s+(R_X86_64_\w+)", rest[k])
                    if not mr:
                        die("%s: cannot parse the relocation %r on objdump line %r" % (o.rel, rest[k], line))
                    handle_reloc(int(mr.group(1), 16), mr.group(2), rest[k + 1].strip())
                continue
            # relocation on a line of its own (data in text, or narrow output)
            m = re.match(r"\s*([0-9a-f]+):\s+(R_X86_64_\w+)\s+(\S+)\s*$", line)
            if m:
                handle_reloc(int(m.group(1), 16), m.group(2), m.group(3))
                continue
            if line.strip() == "" or line.strip() == "..." or re.match(r"\S+:\s+file format", line):
                continue
            die("%s: unexpected objdump line %r" % (o.rel, line))

        # ---- data relocations (readelf -r), including .init_array
        txt = run(["readelf", "-rW", o.path], "readelf -r %s" % o.rel)
        cur = None
        for line in txt.splitlines():
            m = re.match(r"Relocation section '\.rela?(\S+)' at offset", line)
            if m:
                cur = m.group(1)
                continue
            m = re.match(r"([0-9a-f]{16})\s+([0-9a-f]{16})\s+(R_X86_64_\w+)\s+([0-9a-f]{16})?\s*(\S+)?\s*([+-])?\s*([0-9a-f]+)?\s*$", line)
            if not m or cur is None:
                continue
            secname = cur
            idxs = secidx_by_name.get(secname, [])
            flags = o.sections[idxs[0]][2] if idxs else ""
            if "X" in flags:
                continue            # text: handled above
            if not idxs or "A" not in flags:
                continue            # debug / eh_frame are not loaded data (eh_frame is A: points to text only)
            symname = m.group(5) or ""
            add = int(m.group(7) or "0", 16) * (-1 if m.group(6) == "-" else 1)
            if secname.startswith((".init_array", ".ctors", ".preinit_array", ".fini_array", ".dtors")):
                # target is a function, usually given as section+offset
                tname = symname
                if symname in o_section_names:
                    cands = [s for s in o.symbols if s["type"] == "FUNC" and s["ndx"].isdigit()
                             and o.sections[int(s["ndx"])][0] == symname and s["value"] == add]
                    if len(cands) < 1:
                        die("%s: %s entry %s+%#x does not name a function" % (o.rel, secname, symname, add))
                    tname = sorted(c["name"] for c in cands)[0]
                init_array.append((o.rel, secname, tname))
                continue
            if symname in o_section_names:
                idl = secidx_by_name[symname]
                if len(idl) == 1 and is_writable_section(o.sections[idl[0]][0], o.sections[idl[0]][2]):
                    nm = resolve(o, idl[0], add)
                    if nm is None:
                        die("%s: data relocation in %s to %s+%#x, which no symbol covers" % (o.rel, secname, symname, add))
                    data_refs.append((nm, "%s:%s" % (o.rel, secname)))
            elif symname in wnames:
                data_refs.append((symname, "%s:%s" % (o.rel, secname)))

    return {"c_exports": c_exports, "external": external, "writable": writable, "unnamed": unnamed, "stores": stores, "addrs": addrs,
            "referenced": referenced, "data_refs": data_refs, "init_array": init_array,
            "objects": [rel for (rel, p) in objs]}


# ------------------------------------------------------------------------------------------------

def lstr(s):
    return '"' + s.replace("\\", "\\\\").replace('"', '\\"') + '"'


def lean_list(defname, typ, items, doc):
    s = "/-- %s -/\ndef %s : List %s := [" % (doc, defname, typ)
    if items:
        s += "\n  " + ",\n  ".join(items) + "\n"
    s += "]\n"
    return s


def _strip_cv(t):
    t = re.sub(r"\b(const|volatile|struct|class)\b", "", t)
    return re.sub(r"\s+", "", t)

def cast_scan(repo):
    """explicit casts that REMOVE const (C-style, functional, reinterpret_, static_ or const_cast), found in the clang AST of every
    translation unit (template bodies included): `(T&) x`, `(T*) p` with x / *p const.  file:line of each."""
    import json
    out = set()
    srcs = []
    for root, dirs, files in sorted(os.walk(os.path.join(repo, "src"))):
        dirs.sort()
        if "arch" in root and "x86_64" not in root: continue
        srcs += [os.path.join(root, f) for f in sorted(files) if f.endswith(".cpp")]
    kinds = {"CStyleCastExpr", "CXXFunctionalCastExpr", "CXXReinterpretCastExpr", "CXXStaticCastExpr", "CXXConstCastExpr"}
    for src in srcs:
        r = subprocess.run(["clang++-14", "-std=gnu++17", "-I", os.path.join(repo, "include"), "-fsyntax-only", "-Xclang", "-ast-dump=json", src],
                           capture_output=True, text=True)
        if r.returncode != 0:
            die("clang AST of %s failed:\n%s" % (src, r.stderr[-800:]))
        ast = json.loads(r.stdout)
        state = {"file": None, "line": None}
        def walk(n):
            if not isinstance(n, dict): return
            loc = n.get("loc") or {}
            rng = n.get("range", {}).get("begin", {})
            for l in (loc, rng, loc.get("expansionLoc") or {}, rng.get("expansionLoc") or {}):
                if "file" in l: state["file"] = l["file"]
                if "line" in l: state["line"] = l["line"]
            if n.get("kind") in kinds and n.get("inner"):
                to = n.get("type", {}).get("qualType", "")
                inner = n["inner"][-1]
                # look through implicit nodes to the operand as written
                while inner.get("kind") in ("ImplicitCastExpr", "ParenExpr") and inner.get("inner"): inner = inner["inner"][-1]
                frm = inner.get("type", {}).get("qualType", "")
                lval_ref = n.get("valueCategory") == "lvalue"       # (T&) x
                f = state["file"] or ""
                if f.startswith(repo) and "const" in frm:
                    # pointee / referee loses const: same type once cv is stripped, fewer consts in the target spelling
                    same = _strip_cv(frm).rstrip("*&") == _strip_cv(to).rstrip("*&") or lval_ref
                    if same and frm.count("const") > to.count("const") and ("*" in to or lval_ref):
                        out.add("%s:%s" % (os.path.relpath(f, repo), state["line"]))
            for c in n.get("inner", []) or []:
                walk(c)
        walk(ast)
    return sorted(out)

def source_scan(repo):
    """const_cast occurrences in the library sources (file:line), plus every other explicit cast that removes const (cast_scan)."""
    out = cast_scan(repo)
    for top in ("src", "include"):
        for root, dirs, files in sorted(os.walk(os.path.join(repo, top))):
            dirs.sort()
            for f in sorted(files):
                if f.endswith((".cpp", ".hpp", ".h")):
                    p = os.path.join(root, f)
                    with open(p, encoding="utf-8", errors="replace") as fh:
                        for i, line in enumerate(fh, 1):
                            if "const_cast" in line:
                                out.append("%s:%d" % (os.path.relpath(p, repo), i))
    return sorted(set(out))


def main():
    repo = os.path.abspath(sys.argv[1]) if len(sys.argv) > 1 else "/repo"
    outfile = sys.argv[2] if len(sys.argv) > 2 else os.path.join(VERIF, "lean", "JediVerif", "Gen", "Symbols.lean")
    if os.uname().machine != "x86_64":
        die("host is %s; the configurations are defined for an x86_64 host" % os.uname().machine)
    tmp = tempfile.mkdtemp(prefix="syms2lean_")
    try:
        results = []
        for (cfg, flags, with_arch) in CONFIGS:
            objs = build(repo, tmp, cfg, flags, with_arch)
            results.append((cfg, flags, analyse(objs, cfg)))
    finally:
        shutil.rmtree(tmp, ignore_errors=True)

    allraw = set()
    for (cfg, flags, r) in results:
        allraw.update(w[0] for w in r["writable"])
        allraw.update(r["external"])
    dm = demangle(allraw)

    out = []
    out.append("/- GENERATED by translate/syms2lean.py from the repository's working tree; do not edit. -/")
    out.append("namespace Jedi.Gen.Symbols\n")
    out.append(lean_list("const_casts", "String", [lstr(x) for x in source_scan(repo)],
                         "occurrences of `const_cast` in src/ and include/ (file:line)"))
    raws = sorted(set((dm[w[0]], w[0]) for (cfg, flags, r) in results for w in r["writable"]))
    out.append(lean_list("raw_names", "(String × String)", ["(%s, %s)" % (lstr(a), lstr(b)) for a, b in raws],
                         "(demangled, raw) names of every writable symbol of any configuration"))
    for (cfg, flags, r) in results:
        out.append("/-! ## configuration `%s`: %s -/\n" % (cfg, " ".join(BASE + ["-I include"] + flags)))
        out.append(lean_list("objects_" + cfg, "String", [lstr(x) for x in r["objects"]], "sources compiled"))
        out.append(lean_list("undefined_" + cfg, "String", [lstr(x) for x in r["external"]],
                             "symbols undefined in some object and defined in none (raw names)"))
        out.append(lean_list("c_exports_" + cfg, "String", [lstr(x) for x in r["c_exports"]],
                             "global function and object symbols with unmangled embedded_pairing_* names (the C interface as linked)"))
        und_dm = [(x, dm[x]) for x in r["external"] if dm[x] != x]
        out.append(lean_list("undefined_demangled_" + cfg, "(String × String)",
                             ["(%s, %s)" % (lstr(a), lstr(b)) for a, b in und_dm],
                             "(raw, demangled) for those of the above that are C++ names"))
        wl = sorted(set((dm[w[0]], w[1]) for w in r["writable"]))
        out.append(lean_list("writable_" + cfg, "(String × Nat)", ["(%s, %d)" % (lstr(a), b) for a, b in wl],
                             "named objects in writable sections (demangled name, size); COMDAT copies merged"))
        ww = sorted(set((dm[w[0]], "%s:%s" % (w[2], w[3] if len(w[3]) < 40 else w[3][:20] + "…")) for w in r["writable"]))
        out.append(lean_list("writable_where_" + cfg, "(String × String)", ["(%s, %s)" % (lstr(a), lstr(b)) for a, b in ww],
                             "where each lives (source:section)"))
        out.append(lean_list("writable_unnamed_" + cfg, "(String × Nat)",
                             ["(%s, %d)" % (lstr(a), b) for a, b in sorted(r["unnamed"])],
                             "bytes of writable sections not covered by any symbol (source:section, bytes)"))
        st = sorted(set((dm[a], b) for a, b in r["stores"]))
        out.append(lean_list("stores_" + cfg, "(String × String)", ["(%s, %s)" % (lstr(a), lstr(b)) for a, b in st],
                             "(writable symbol, raw name of a function containing a store instruction to it)"))
        ad = sorted(set((dm[a], b) for a, b in r["addrs"]))
        out.append(lean_list("addr_taken_" + cfg, "(String × String)", ["(%s, %s)" % (lstr(a), lstr(b)) for a, b in ad],
                             "(writable symbol, raw name of a function that materialises its address)"))
        out.append(lean_list("referenced_" + cfg, "String", [lstr(x) for x in sorted(set(dm[x] for x in r["referenced"]))],
                             "writable symbols referenced from code in any way"))
        out.append(lean_list("data_refs_" + cfg, "(String × String)",
                             ["(%s, %s)" % (lstr(dm[a]), lstr(b)) for a, b in sorted(set(r["data_refs"]))],
                             "writable symbols whose address is stored in a data section (symbol, source:section)"))
        out.append(lean_list("init_array_" + cfg, "(String × String)",
                             ["(%s, %s)" % (lstr(a), lstr(c)) for a, b, c in sorted(set(r["init_array"]))],
                             "load-time initialisers registered in .init_array/.ctors (source, raw function name)"))
    out.append("end Jedi.Gen.Symbols")
    text = "\n".join(out) + "\n"

    old = None
    if os.path.exists(outfile):
        with open(outfile, encoding="utf-8") as f:
            old = f.read()
    if old != text:
        os.makedirs(os.path.dirname(os.path.abspath(outfile)), exist_ok=True)
        with open(outfile + ".tmp", "w", encoding="utf-8") as f:
            f.write(text)
        os.replace(outfile + ".tmp", outfile)
        print("syms2lean: wrote %s" % outfile)
    else:
        print("syms2lean: %s unchanged" % outfile)


if __name__ == "__main__":
    main()
