#!/usr/bin/env python3
"""T7: structural digests of the C++ functions that are modelled BY HAND (Impl/*.lean).

The hand-written models are tied to the code by the differential judge (behaviour on the streams).  This translator adds a
second, complete but conservative tie: for every function definition of the library (all translation units, headers included)
it computes a digest of the typed clang AST of the definition — statement structure, operators, callees, member accesses,
literals, types; source locations, node addresses and comments are ignored — and writes them to Gen/Mirrors.lean.  The digests the
models were written against are committed in Impl/MirrorsExpected.lean; the generated theorems `mirror_<property>` (decided by
the kernel) say that, for the functions each property's hand-written models mirror, the current digests are the expected ones.
A change to one of these functions therefore always surfaces: either as a behavioural disagreement (replay) or, when no failing
input is found, as this obligation failing (the model is no longer known to mirror the code).

usage: mirrors2lean.py [repo]            regenerate Gen/Mirrors.lean
       mirrors2lean.py [repo] --accept   also rewrite Impl/MirrorsExpected.lean from the current tree (after the models were re-read)
"""
import hashlib, json, os, re, subprocess, sys
HERE = os.path.dirname(os.path.abspath(__file__))
VERIF = os.path.dirname(HERE)
GEN = os.path.join(VERIF, "lean/JediVerif/Gen/Mirrors.lean")
EXP = os.path.join(VERIF, "lean/JediVerif/Impl/MirrorsExpected.lean")

TUS = ["src/bls12_381/fq.cpp", "src/bls12_381/fr.cpp", "src/bls12_381/fq2.cpp", "src/bls12_381/fq6.cpp", "src/bls12_381/fq12.cpp",
       "src/bls12_381/fq12_cyclotomic.cpp", "src/bls12_381/decomposition.cpp", "src/bls12_381/curve.cpp",
       "src/bls12_381/curve_fast_multiply.cpp", "src/bls12_381/pairing.cpp", "src/bls12_381/bls12_381.cpp",
       "src/wkdibe/api.cpp", "src/wkdibe/marshal.cpp", "src/wkdibe/wkdibe.cpp", "src/lqibe/api.cpp", "src/lqibe/marshal.cpp",
       "src/lqibe/lqibe.cpp", "src/core/arch/x86_64/runtime.cpp"]

# which functions (regex on the readable key) each property's HAND-WRITTEN models mirror
GROUPS = {
    "C01": [r"^(var|record|typedef) bls12_381::(bls_x|generator_pairing|G2Prepared|AffinePair|PreparedPair|MillerTriple|num_coeffs)", r"bls12_381::miller_loop\(", r"bls12_381::exp_by_x_restrict", r"bls12_381::pairing[ <(]", r"G2Prepared::prepare"],
    "C02": [r"^(var|record|typedef) core::", r"^(var|record|typedef) bls12_381::(Fq|Fr)\b", r"core::BigInt<", r"core::FpBase<", r"core::Fp<", r"core::fp_inverse", r"core::exponentiate", r"bls12_381::Fq::", r"bls12_381::Fr::"],
    "C03": [r"^(var|record|typedef) core::", r"core::BigInt<", r"core::FpBase<", r"core::Fp<"],
    "C06": [r"^(var|record|typedef) bls12_381::(Wnaf|PowersOfX|g1_|g2_|fr_p_value|bls_x|G1\b|G2\b)", r"WnafScalar<", r"WnafTable<", r"wnaf_table_multiply", r"wnaf_multiply", r"multiply_doubleadd", r"multiply_wnaf",
            r"curve_fast_multiply|floordiv_by_fr_p_value|decompose_lambda|G1::endomorphism|G1::multiply|G2::frobenius_map|G2::multiply|fq2_multiply_by_u|fq2_multiply_frobenius",
            r"div_exp_coeff", r"PowersOfX::decompose", r"BigInt<.*divide"],
    "C07": [r"^(var|record|typedef) bls12_381::(PowersOfX|bls_x|Fq12\b)", r"Fq12::exponentiate_gt", r"Fq12::random_gt", r"PowersOfX::", r"div_exp_coeff", r"exponentiate_restrict_cyclotomic"],
    "C08": [r"^(var|record|typedef) bls12_381::(G2Prepared|AffinePair|PreparedPair|MillerTriple|num_coeffs)", r"bls12_381::miller_loop\(", r"G2Prepared::prepare", r"bls12_381::pairing", r"pairing_product"],
    "C09": [r"^(var|record|typedef) bls12_381::(Encoding|Affine|Projective|G1|G2|Fq2\b)", r"Encoding<", r"get_point_from_x", r"is_on_curve", r"is_in_correct_subgroup", r"Fq2::square_root", r"Fq2::compare", r"Fq2::legendre",
            r"Fq::read_big_endian", r"Fq::write_big_endian", r"Fq2::read_big_endian", r"Fq2::write_big_endian", r"Fq::compare"],
    "C10": [r"^(var|record|typedef) bls12_381::(Affine|Projective|G1|G2|PowersOfX|Fq\b|Fr\b|Fq2\b)", r"try_and_increment", r"from_hash", r"sample_random_generator", r"random_generator", r"hash_reduce", r"Fq::random", r"Fr::random", r"Fq2::random",
            r"PowersOfX::random", r"compute_id_from_hash", r"zp_from_hash"],
    "C11": [r"^(var|record|typedef) wkdibe::", r"wkdibe::(setup|keygen|qualifykey|nondelegable_keygen|nondelegable_qualifykey|adjust_nondelegable|resamplekey|encrypt|decrypt|decrypt_master|precompute|id_difference|encrypt_precomputed)"],
    "C12": [r"^(var|record|typedef) wkdibe::", r"wkdibe::(precompute|encrypt_precomputed|encrypt|decrypt|qualifykey|nondelegable_qualifykey|adjust_nondelegable)"],
    "C13": [r"^(var|record|typedef) wkdibe::", r"wkdibe::(sign|sign_precomputed|verify|verify_precomputed|precompute)"],
    "C14": [r"^(var|record|typedef) wkdibe::", r"wkdibe::(adjust_precomputed|adjust_nondelegable|precompute|id_difference|resamplekey|encrypt_precomputed|sign_precomputed|verify_precomputed)"],
    "C15": [r"^(var|record|typedef) (wkdibe|lqibe)::", r"wkdibe::.*[Mm]arshal", r"wkdibe::.*(unmarshalledLength|marshalledLength|setLength)", r"lqibe::.*[Mm]arshal", r"uint32_swap_endianness", r"Fq12::read_big_endian", r"Fq12::write_big_endian"],
    "C16": [r"^(var|record|typedef) lqibe::", r"lqibe::(setup|keygen|encrypt|decrypt|compute_id_from_hash)"],
    "C19": [r"^embedded_pairing_(bls12_381|wkdibe|lqibe|core)_"],
    "C17": [r"^(var|record|typedef) (wkdibe|lqibe)::", r"wkdibe::.*[Mm]arshal", r"wkdibe::.*(unmarshalledLength|marshalledLength|setLength)", r"lqibe::.*[Mm]arshal"],
}

KEEP = ("kind", "name", "opcode", "value", "castKind", "isArrow", "isPostfix", "valueCategory", "storageClass", "constexpr", "inline",
        "explicitlyDefaulted", "explicitlyDeleted", "tagUsed", "init", "isBitfield", "mutable", "nonOdrUseReason", "hasElse", "isConstexpr", "depth", "index", "isParameterPack")
# NOTE "defaultArg" of template parameters is a nested node and is kept through "inner"/"defaultArg" below

_alpha = {}   # id of a local variable / parameter declaration -> positional name (alpha-normalisation: renaming a local is harmless)

def collect_locals(n, acc):
    if isinstance(n, list):
        for x in n: collect_locals(x, acc)
    elif isinstance(n, dict):
        if n.get("kind") in ("ParmVarDecl", "VarDecl", "BindingDecl") and "id" in n and n["id"] not in acc:
            acc[n["id"]] = "$%d" % len(acc)
        for v in n.values():
            if isinstance(v, (list, dict)): collect_locals(v, acc)

def canon_fn(n):
    """canonical form of one function definition with its parameters and local variables renamed positionally"""
    global _alpha
    _alpha = {}
    collect_locals(n.get("inner", []), _alpha)
    try:
        return canon(n)
    finally:
        _alpha = {}

def canon(n):
    if isinstance(n, list): return [canon(x) for x in n]
    if not isinstance(n, dict): return n
    if n.get("kind") in ("FullComment", "ParagraphComment", "TextComment", "BlockCommandComment", "ParamCommandComment"): return None
    out = {}
    for k in KEEP:
        if k in n: out[k] = n[k]
    if n.get("id") in _alpha: out["name"] = _alpha[n["id"]]
    if isinstance(n.get("type"), dict) and "qualType" in n["type"]: out["type"] = n["type"]["qualType"]
    rd = n.get("referencedDecl")
    if isinstance(rd, dict):
        out["ref"] = {"kind": rd.get("kind"), "name": _alpha.get(rd.get("id"), rd.get("name")), "type": (rd.get("type") or {}).get("qualType")}
    if "inner" in n:
        out["inner"] = [c for c in (canon(x) for x in n["inner"]) if c is not None]
    if isinstance(n.get("defaultArg"), dict):
        out["defaultArg"] = canon(n["defaultArg"])
    return out

def has_body(n):
    return any(c.get("kind") == "CompoundStmt" for c in n.get("inner", []) if isinstance(c, dict))

_filt_cache = {}
def demangle(names):
    todo = [m for m in names if m not in _filt_cache]
    if todo:
        r = subprocess.run(["c++filt"], input="\n".join(todo), capture_output=True, text=True)
        for m, d in zip(todo, r.stdout.splitlines()): _filt_cache[m] = d
    return [_filt_cache[m] for m in names]

def collect(node, ctx, found):
    """walk declaration contexts; record every function definition with a readable key"""
    if not isinstance(node, dict): return
    k = node.get("kind")
    if k in ("NamespaceDecl", "CXXRecordDecl", "ClassTemplateDecl", "ClassTemplateSpecializationDecl", "ClassTemplatePartialSpecializationDecl", "LinkageSpecDecl"):
        targs = ""
        if k in ("ClassTemplateSpecializationDecl", "ClassTemplatePartialSpecializationDecl"):
            def targ(a):
                if isinstance(a.get("type"), dict): return a["type"].get("qualType", "?")
                if "value" in a: return str(a["value"])
                if isinstance(a.get("decl"), dict): return a["decl"].get("name", "?")
                inner = [x for x in a.get("inner", []) if isinstance(x, dict)]
                return json.dumps(canon(inner), sort_keys=True)[:80] if inner else "?"
            targs = "<" + ", ".join(targ(c) for c in node.get("inner", []) if isinstance(c, dict) and c.get("kind") == "TemplateArgument") + ">"
        sub = ctx + ([node["name"] + targs] if node.get("name") and k != "LinkageSpecDecl" else [])
        if k in ("CXXRecordDecl", "ClassTemplateSpecializationDecl", "ClassTemplatePartialSpecializationDecl") and node.get("completeDefinition") and node.get("name"):
            # the data layout of a record: bases and fields (names, types, bit-fields, default initialisers), in order
            fields = [canon(c) for c in node.get("inner", []) if isinstance(c, dict) and c.get("kind") == "FieldDecl"]
            bases = [(b.get("type") or {}).get("qualType") for b in node.get("bases", [])]
            if fields or bases:
                found.append(("record " + "::".join(sub), None, {"tag": node.get("tagUsed"), "bases": bases, "fields": fields}))
        for c in node.get("inner", []): collect(c, sub, found)
        return
    if k in ("CXXRecordDecl", "ClassTemplateSpecializationDecl") and False: pass
    if k == "VarDecl" and "init" in node and ctx:
        found.append(("var " + "::".join(ctx + [node.get("name", "?")]) + " " + (node.get("type") or {}).get("qualType", ""), None, canon(node)))
        return
    if k in ("TypedefDecl", "TypeAliasDecl") and ctx:
        t = node.get("type") or {}
        found.append(("typedef " + "::".join(ctx + [node.get("name", "?")]), None, {"type": t.get("qualType"), "desugared": t.get("desugaredQualType")}))
        return
    if k == "FunctionTemplateDecl":
        templ = [c for c in node.get("inner", []) if isinstance(c, dict) and c.get("kind") in ("FunctionDecl", "CXXMethodDecl", "CXXConstructorDecl")]
        if any(has_body(t) for t in templ):
            # the template pattern only (instantiations depend on the translation unit)
            pat = templ[0]
            tparams = [canon(c) for c in node.get("inner", []) if isinstance(c, dict) and c.get("kind") in ("TemplateTypeParmDecl", "NonTypeTemplateParmDecl", "TemplateTemplateParmDecl")]
            found.append(("::".join(ctx + [node.get("name", "?")]) + " [template] " + (pat.get("type") or {}).get("qualType", ""), None, {"params": tparams, "pattern": canon_fn(pat)}))
        return
    if k in ("FunctionDecl", "CXXMethodDecl", "CXXConstructorDecl", "CXXDestructorDecl", "CXXConversionDecl"):
        if has_body(node):
            found.append(("::".join(ctx + [node.get("name", "?")]) + " " + (node.get("type") or {}).get("qualType", ""), node.get("mangledName"), canon_fn(node)))
        return

def load(repo, rel):
    cmd = ["clang++-14", "-std=gnu++17", "-I", os.path.join(repo, "include"), "-fsyntax-only", "-Xclang", "-ast-dump=json",
           "-Xclang", "-ast-dump-filter=embedded_pairing", os.path.join(repo, rel)]
    r = subprocess.run(cmd, capture_output=True, text=True)
    if r.returncode != 0:
        sys.stderr.write("mirrors2lean: clang failed on %s:\n%s\n" % (rel, r.stderr[:3000])); sys.exit(1)
    txt = r.stdout; dec = json.JSONDecoder(); i = 0; objs = []
    while i < len(txt):
        while i < len(txt) and txt[i] in " \n\r\t": i += 1
        if i >= len(txt): break
        o, j = dec.raw_decode(txt, i); objs.append(o); i = j
    return objs

def lstr(s): return '"' + s.replace("\\", "\\\\").replace('"', '\\"') + '"'

def main():
    args = [a for a in sys.argv[1:] if not a.startswith("--")]
    repo = os.path.abspath(args[0]) if args else "/repo"
    accept = "--accept" in sys.argv
    table = {}
    for rel in TUS:
        if not os.path.exists(os.path.join(repo, rel)):
            sys.stderr.write("mirrors2lean: %s is missing\n" % rel); sys.exit(1)
        found = []
        for o in load(repo, rel):
            # the filter prints each matching top-level declaration; nested contexts are walked by collect
            collect(o, [], found)
        mangled = [m for (_, m, _) in found if m]
        dm = dict(zip(mangled, demangle(mangled))) if mangled else {}
        for (key, m, c) in found:
            name = dm.get(m, key) if m else key
            name = re.sub(r"^((?:var|record|typedef) )?embedded_pairing::", r"\1", name)
            h = hashlib.sha256(json.dumps(c, sort_keys=True, separators=(",", ":")).encode()).hexdigest()[:24]
            if name not in table: table[name] = h          # first translation unit (fixed order) wins
            elif table[name] != h and "[template]" not in name:
                table[name + " #" + rel] = h                 # same name, different body in another unit: keep both
    rows = sorted(table.items())
    groups = {}
    for pid, pats in GROUPS.items():
        rx = [re.compile(p) for p in pats]
        groups[pid] = [(n, h) for (n, h) in rows if any(r.search(n) for r in rx)]
        if not groups[pid]:
            sys.stderr.write("mirrors2lean: no function matches the patterns of %s\n" % pid); sys.exit(1)
    def emit(ns, note):
        out = ["/- %s -/" % note, "namespace %s" % ns, ""]
        out.append("/-- (function, digest of its typed AST) for every function definition of the library -/")
        out.append("def all : List (String × String) := [\n  " + ",\n  ".join("(%s, %s)" % (lstr(n), lstr(h)) for (n, h) in rows) + "\n]\n")
        for pid in sorted(groups):
            out.append("/-- the functions the hand-written models of %s mirror -/" % pid)
            out.append("def %s : List (String × String) := [\n  " % pid.lower() + ",\n  ".join("(%s, %s)" % (lstr(n), lstr(h)) for (n, h) in groups[pid]) + "\n]\n")
        out.append("end %s\n" % ns)
        return "\n".join(out)
    gen = emit("Jedi.Gen.Mirrors", "GENERATED by translate/mirrors2lean.py from /repo's working tree; do not edit.")
    old = open(GEN).read() if os.path.exists(GEN) else None
    if old != gen:
        with open(GEN, "w") as f: f.write(gen)
    msg = "mirrors2lean: %d function definitions, groups %s -> %s%s" % (len(rows), " ".join("%s:%d" % (p, len(groups[p])) for p in sorted(groups)), GEN, " (unchanged)" if old == gen else "")
    if accept or not os.path.exists(EXP):
        exp = emit("Jedi.Impl.MirrorsExpected", "The digests the hand-written Impl models were written against (translate/mirrors2lean.py --accept after re-reading the models). Committed; compared with Gen/Mirrors.lean by the kernel.")
        with open(EXP, "w") as f: f.write(exp)
        msg += "; expected table rewritten"
    print(msg)

if __name__ == "__main__":
    main()
