#!/usr/bin/env python3
"""asm2lean: the x86-64 assembly sources of the core library -> Lean programs for the model of
JediVerif/Impl/X86.lean.

usage: asm2lean.py [repo] [outfile] [--no-crosscheck]
       (defaults: /repo, <verif>/lean/JediVerif/Gen/AsmX86.lean)

Reads every `*.s` in <repo>/src/core/arch/x86_64 (AT&T syntax, GNU as), from the CURRENT working tree:

  * comments (`#` to end of line) are removed;
  * `.macro name a, b, …` / `.endm` definitions are recorded and every invocation is expanded
    (positional arguments, separated by commas or blanks outside parentheses, `\\arg` substitution,
    macros may invoke macros); `\\@`, default values, `:req`/`:vararg`, nested definitions are rejected;
  * the directives .globl/.global/.type/.text/.size/.align/.p2align/.balign are accepted (they do not
    change what an exported routine computes); any other directive is an error;
  * every instruction is parsed into the `Instr` type of the model: operands `%reg`, `$expr`,
    `expr(%base)` (expr: integers, + - *, parentheses), jump targets are labels; operand width from
    the mnemonic suffix or from the register names (both must agree);
  * a routine is the code from a `.globl` label up to the next `.globl` label; it must end in
    `ret`/`jmp`, and all its jumps must stay inside it; labels become instruction indices.

Anything that is not understood (instruction, operand form, directive, register, condition code,
duplicate or missing label, code outside a routine, fall-through out of a routine) terminates the
translator with a non-zero exit status and a message `file:line: …`.  Nothing is guessed.

Cross-check (default, skipped with a note if `as`/`objdump` are not installed): each file is also
assembled with GNU as and disassembled with objdump; the instruction sequence the assembler
produced must be, instruction for instruction, the one this translator produced (same operation,
width, operands, jump target).  A difference is an error: the model follows what is assembled.

The output is deterministic and rewritten only if its content changes.
"""
import os, re, shutil, subprocess, sys, tempfile

HERE = os.path.dirname(os.path.abspath(__file__))
VERIF = os.path.dirname(HERE)
ASM_DIR = "src/core/arch/x86_64"


class AsmError(Exception):
    pass


def die(where, msg):
    raise AsmError("%s: %s" % (where, msg))


# ----------------------------------------------------------------------------- registers
R64 = ["rax", "rcx", "rdx", "rbx", "rsp", "rbp", "rsi", "rdi", "r8", "r9", "r10", "r11", "r12", "r13", "r14", "r15"]
R32 = ["eax", "ecx", "edx", "ebx", "esp", "ebp", "esi", "edi"] + ["r%dd" % i for i in range(8, 16)]
R8 = ["al", "cl", "dl", "bl", "spl", "bpl", "sil", "dil"] + ["r%db" % i for i in range(8, 16)]
REGS = {}
for i, n in enumerate(R64): REGS[n] = (R64[i], "q")
for i, n in enumerate(R32): REGS[n] = (R64[i], "l")
for i, n in enumerate(R8): REGS[n] = (R64[i], "b")

COND = {
    "o": "o", "no": "no",
    "b": "b", "c": "b", "nae": "b",
    "ae": "ae", "nb": "ae", "nc": "ae",
    "e": "e", "z": "e", "ne": "ne", "nz": "ne",
    "be": "be", "na": "be", "a": "a", "nbe": "a",
    "s": "s", "ns": "ns",
    "l": "l", "nge": "l", "ge": "ge", "nl": "ge",
    "le": "le", "ng": "le", "g": "g", "nle": "g",
}
ALU = ["add", "adc", "sub", "sbb", "cmp", "and", "or", "xor", "test"]
UNARY = ["neg", "inc", "dec"]
BASES = set(ALU + UNARY + ["mov", "lea", "mul", "imul", "mulx", "adcx", "adox", "bt", "push", "pop", "ret", "cpuid", "jmp"])


# ----------------------------------------------------------------------------- expressions
def eval_expr(text, where):
    """integers (decimal, 0x hex), + - *, unary -, parentheses"""
    toks = re.findall(r"0[xX][0-9a-fA-F]+|\d+|[-+*()]|\S", text)
    pos = [0]

    def peek(): return toks[pos[0]] if pos[0] < len(toks) else None
    def take():
        t = peek(); pos[0] += 1; return t

    def atom():
        t = take()
        if t is None: die(where, "incomplete expression '%s'" % text)
        if t == "(":
            v = expr()
            if take() != ")": die(where, "unbalanced parentheses in '%s'" % text)
            return v
        if t == "-": return -atom()
        if t == "+": return atom()
        if re.fullmatch(r"0[xX][0-9a-fA-F]+", t): return int(t, 16)
        if re.fullmatch(r"\d+", t):
            if len(t) > 1 and t[0] == "0": return int(t, 8)
            return int(t)
        die(where, "cannot evaluate '%s' in expression '%s'" % (t, text))

    def term():
        v = atom()
        while peek() == "*":
            take(); v *= atom()
        return v

    def expr():
        v = term()
        while peek() in ("+", "-"):
            if take() == "+": v += term()
            else: v -= term()
        return v

    v = expr()
    if pos[0] != len(toks): die(where, "trailing '%s' in expression '%s'" % (peek(), text))
    return v


# ----------------------------------------------------------------------------- operands
def split_top(text, where, allow_blank_sep):
    """split at top-level commas (and, for macro arguments, blanks)"""
    out, cur, depth = [], "", 0
    i = 0
    while i < len(text):
        ch = text[i]
        if ch == "(":
            depth += 1; cur += ch
        elif ch == ")":
            depth -= 1
            if depth < 0: die(where, "unbalanced ')' in '%s'" % text)
            cur += ch
        elif ch == "," and depth == 0:
            out.append(cur.strip()); cur = ""
        elif ch in " \t" and depth == 0 and allow_blank_sep:
            j = i
            while j < len(text) and text[j] in " \t": j += 1
            if cur.strip() and j < len(text) and text[j] != ",":
                prev = cur.strip()[-1]
                if prev in "+-*/" or text[j] in "+-*/":
                    die(where, "blank next to an operator in macro arguments '%s' (ambiguous)" % text)
                out.append(cur.strip()); cur = ""
            i = j; continue
        else:
            cur += ch
        i += 1
    if depth != 0: die(where, "unbalanced '(' in '%s'" % text)
    if cur.strip() or out: out.append(cur.strip())
    return out


def parse_operand(t, where):
    """-> ('reg', name64, width) | ('imm', value) | ('mem', base64, disp) | ('sym', name)"""
    t = t.strip()
    if not t: die(where, "empty operand")
    if t[0] == "%":
        n = t[1:]
        if n not in REGS: die(where, "unknown register '%s'" % t)
        return ("reg",) + REGS[n]
    if t[0] == "$":
        v = eval_expr(t[1:], where)
        if not (-2 ** 31 <= v < 2 ** 31): die(where, "immediate %d does not fit a sign-extended 32-bit field" % v)
        return ("imm", v)
    if t[0] == "*": die(where, "indirect operand '%s' not supported" % t)
    m = re.fullmatch(r"(.*)\(\s*([^()]*)\s*\)", t)
    if m and "%" in m.group(2):
        inner = [x.strip() for x in m.group(2).split(",")]
        if len(inner) != 1: die(where, "index/scale addressing '%s' not supported" % t)
        if not inner[0].startswith("%") or inner[0][1:] not in REGS: die(where, "bad base register in '%s'" % t)
        base, w = REGS[inner[0][1:]]
        if w != "q": die(where, "base register of '%s' is not a 64-bit register" % t)
        if "%" in m.group(1): die(where, "segment override / register in displacement '%s' not supported" % t)
        disp = eval_expr(m.group(1), where) if m.group(1).strip() else 0
        if not (-2 ** 31 <= disp < 2 ** 31): die(where, "displacement %d out of range" % disp)
        return ("mem", base, disp)
    if re.fullmatch(r"[A-Za-z_.][A-Za-z0-9_.$]*", t):
        return ("sym", t)
    die(where, "operand '%s' not understood (absolute memory operands are not supported)" % t)


def width_of(mn_width, ops, where, need=True):
    ws = {o[2] for o in ops if o[0] == "reg"}
    if mn_width: ws.add(mn_width)
    if len(ws) > 1: die(where, "operand sizes disagree (%s)" % ", ".join(sorted(ws)))
    if not ws:
        if need: die(where, "operand size cannot be determined (no suffix, no register operand)")
        return None
    return ws.pop()


def parse_instr(mn, optext, where):
    """-> tuple describing an Instr; jump targets stay symbolic: ('jcc', cond, ('sym', name))"""
    ops = [parse_operand(x, where) for x in split_top(optext, where, False)] if optext.strip() else []
    base, suf = None, None
    if mn in BASES: base = mn
    elif mn[:-1] in BASES and mn[-1] in "bwlq": base, suf = mn[:-1], mn[-1]
    elif mn.startswith("set") and mn[3:] in COND:
        if len(ops) != 1 or ops[0][0] != "reg" or ops[0][2] != "b": die(where, "%s needs one 8-bit register operand" % mn)
        return ("setcc", COND[mn[3:]], ops[0][1])
    elif mn.startswith("j") and mn[1:] in COND:
        if len(ops) != 1 or ops[0][0] != "sym": die(where, "%s needs a label operand" % mn)
        return ("jcc", COND[mn[1:]], ops[0])
    elif mn.startswith("j") or mn.startswith("set") or mn.startswith("cmov"):
        die(where, "condition code of '%s' not supported" % mn)
    else:
        die(where, "instruction '%s' not supported by the model" % mn)
    if suf in ("b", "w"): die(where, "8/16-bit form '%s' not supported" % mn)

    def want(n):
        if len(ops) != n: die(where, "'%s' expects %d operand(s), got %d" % (mn, n, len(ops)))
    def no_sym():
        for o in ops:
            if o[0] == "sym": die(where, "symbol operand '%s' not supported here" % o[1])
    def no_mem_l(w):
        if w == "l" and any(o[0] == "mem" for o in ops): die(where, "32-bit memory operand not supported")
    def dst_ok(o):
        if o[0] not in ("reg", "mem"): die(where, "destination of '%s' must be a register or memory" % mn)
    def reg64(o):
        if o[0] != "reg" or o[2] != "q": die(where, "'%s' needs a 64-bit register here" % mn)
        return o[1]
    def opq(o):
        if o[0] == "reg" and o[2] != "q": die(where, "'%s' needs 64-bit operands" % mn)
        return o

    if base == "jmp":
        want(1)
        if ops[0][0] != "sym": die(where, "jmp needs a label operand")
        return ("jmp", ops[0])
    no_sym()
    if base == "ret":
        want(0); return ("ret",)
    if base == "cpuid":
        want(0)
        if suf: die(where, "cpuid takes no suffix")
        return ("cpuid",)
    if base == "mov":
        want(2); w = width_of(suf, ops, where); no_mem_l(w); dst_ok(ops[1])
        if ops[0][0] == "mem" and ops[1][0] == "mem": die(where, "memory-to-memory mov")
        return ("mov", w, ops[0], ops[1])
    if base == "lea":
        want(2); w = width_of(suf, [ops[1]], where)
        if w != "q" or ops[0][0] != "mem": die(where, "only 64-bit lea disp(%base), %reg is supported")
        return ("lea", ops[0][1], ops[0][2], reg64(ops[1]))
    if base in ALU:
        want(2); w = width_of(suf, ops, where); no_mem_l(w)
        if base not in ("cmp", "test"): dst_ok(ops[1])
        elif ops[1][0] == "imm": die(where, "immediate as second operand of %s" % base)
        if ops[0][0] == "mem" and ops[1][0] == "mem": die(where, "two memory operands")
        return ("alu", base, w, ops[0], ops[1])
    if base in UNARY:
        want(1); w = width_of(suf, ops, where); no_mem_l(w); dst_ok(ops[0])
        return (base, w, ops[0])
    if base == "mul":
        want(1); w = width_of(suf, ops, where)
        if w != "q" or ops[0][0] == "imm": die(where, "only 64-bit one-operand mul of a register or memory is supported")
        return ("mul", ops[0])
    if base == "imul":
        w = width_of(suf, ops, where)
        if len(ops) != 2 or w != "q" or ops[0][0] == "imm": die(where, "only the 64-bit two-operand form 'imul src, %reg' is supported")
        return ("imul2", opq(ops[0]), reg64(ops[1]))
    if base == "mulx":
        want(3); w = width_of(suf, ops, where)
        if w != "q" or ops[0][0] == "imm": die(where, "only 64-bit mulx is supported")
        return ("mulx", opq(ops[0]), reg64(ops[1]), reg64(ops[2]))
    if base in ("adcx", "adox"):
        want(2); w = width_of(suf, ops, where)
        if w != "q" or ops[0][0] == "imm": die(where, "only 64-bit %s is supported" % base)
        return (base, opq(ops[0]), reg64(ops[1]))
    if base == "bt":
        want(2); w = width_of(suf, [ops[1]], where)
        if ops[0][0] != "imm" or ops[0][1] < 0: die(where, "only 'bt $imm, operand' is supported")
        if ops[1][0] == "mem": die(where, "bt on a memory operand is not supported")
        if ops[1][0] != "reg": die(where, "bt needs a register operand")
        return ("bt", w, ops[0][1], ops[1])
    if base == "push":
        want(1); w = width_of(suf, ops, where, need=False)
        if w not in (None, "q"): die(where, "only 64-bit push is supported")
        return ("push", ops[0])
    if base == "pop":
        want(1); w = width_of(suf, ops, where, need=False)
        if w not in (None, "q") or ops[0][0] != "reg": die(where, "only 64-bit pop into a register is supported")
        return ("pop", ops[0][1])
    die(where, "instruction '%s' not supported by the model" % mn)


# ----------------------------------------------------------------------------- files, macros
ACCEPTED_DIRECTIVES = {".globl", ".global", ".type", ".text", ".size", ".align", ".p2align", ".balign"}
LABEL_RE = r"[A-Za-z_.][A-Za-z0-9_.$]*"


def parse_file(path, short):
    """-> (items, globls) where items = list of ('label', name, where) | ('insn', tuple, where, text)"""
    macros = {}
    items, globls = [], []
    cur_macro = None

    def expand(text, where, depth):
        """text: one statement without label and comment"""
        if depth > 50: die(where, "macro recursion too deep")
        text = text.strip()
        if not text: return
        if ";" in text: die(where, "';' statement separator not supported")
        m = re.match(r"(%s)\s*:" % LABEL_RE, text)
        if m:
            items.append(("label", m.group(1), where))
            expand(text[m.end():], where, depth); return
        parts = text.split(None, 1)
        head, rest = parts[0], (parts[1] if len(parts) > 1 else "")
        if head.startswith("."):
            if head in (".macro", ".endm"): die(where, "nested macro definition")
            if head not in ACCEPTED_DIRECTIVES: die(where, "directive '%s' not understood" % head)
            if head in (".globl", ".global"):
                for s in split_top(rest, where, False):
                    if not re.fullmatch(LABEL_RE, s): die(where, "bad symbol in %s" % head)
                    if s not in globls: globls.append(s)
            return
        if head in macros:
            params, body, mwhere = macros[head]
            args = split_top(rest, where, True)
            if len(args) != len(params):
                die(where, "macro '%s' (defined at %s) takes %d argument(s), %d given" % (head, mwhere, len(params), len(args)))
            for (bl, bwhere) in body:
                def sub(mm):
                    name = mm.group(1)
                    if name == "@": die(bwhere, "\\@ not supported")
                    if name == "()": return ""
                    if name in params: return args[params.index(name)]
                    die(bwhere, "'\\%s' is not a parameter of macro '%s'" % (name, head))
                line = re.sub(r"\\(@|\(\)|[A-Za-z_][A-Za-z0-9_]*)", sub, bl)
                if "\\" in line: die(bwhere, "backslash construct not understood in '%s'" % bl)
                expand(line, "%s (in %s invoked at %s)" % (bwhere, head, where.split(" (")[0]), depth + 1)
            return
        items.append(("insn", parse_instr(head, rest, where), where, text))

    with open(path, encoding="utf-8") as f:
        lines = f.read().split("\n")
    for ln, raw in enumerate(lines, 1):
        where = "%s:%d" % (short, ln)
        text = raw.split("#", 1)[0].rstrip()
        if "/*" in text or "*/" in text: die(where, "C-style comments not supported")
        if '"' in text or "'" in text: die(where, "string/character literals not supported")
        st = text.strip()
        if cur_macro is not None:
            if re.match(r"\.endm\b", st):
                macros[cur_macro[0]] = (cur_macro[1], cur_macro[2], cur_macro[3]); cur_macro = None
            elif re.match(r"\.macro\b", st): die(where, "nested macro definition")
            elif st: cur_macro[2].append((st, where))
            continue
        if re.match(r"\.macro\b", st):
            parts = split_top(st[len(".macro"):], where, True)
            if not parts: die(where, ".macro without a name")
            name, params = parts[0], parts[1:]
            if not re.fullmatch(r"[A-Za-z_][A-Za-z0-9_]*", name): die(where, "bad macro name '%s'" % name)
            for p in params:
                if not re.fullmatch(r"[A-Za-z_][A-Za-z0-9_]*", p): die(where, "macro parameter '%s' not supported (defaults, :req, :vararg)" % p)
            if name in macros: die(where, "macro '%s' defined twice" % name)
            cur_macro = (name, params, [], where)
            continue
        if re.match(r"\.endm\b", st): die(where, ".endm without .macro")
        expand(st, where, 0)
    if cur_macro is not None: die("%s:%d" % (short, len(lines)), "unterminated .macro %s" % cur_macro[0])
    return items, globls


def build_routines(items, globls, short):
    """-> list of (symbol, where, [(instr tuple with resolved targets, where, text)], {label: index})"""
    labels = {}
    insns = []
    for it in items:
        if it[0] == "label":
            if it[1] in labels: die(it[2], "label '%s' defined twice (first at %s)" % (it[1], labels[it[1]][1]))
            labels[it[1]] = (len(insns), it[2])
        else:
            insns.append(it)
    for g in globls:
        if g not in labels: die(short, "exported symbol '%s' has no label" % g)
    starts = sorted((labels[g][0], g) for g in globls)
    for a, b in zip(starts, starts[1:]):
        if a[0] == b[0]: die(labels[b[1]][1], "exported symbols '%s' and '%s' label the same instruction" % (a[1], b[1]))
    if insns and (not starts or starts[0][0] != 0):
        die(insns[0][2], "code before the first exported symbol")
    out = []
    for k, (st, g) in enumerate(starts):
        en = starts[k + 1][0] if k + 1 < len(starts) else len(insns)
        if en == st: die(labels[g][1], "exported symbol '%s' has no code" % g)
        body = []
        local = {n: (i - st) for n, (i, _) in labels.items() if st <= i < en or (i == en and False)}
        for (_, ins, where, text) in insns[st:en]:
            if ins[0] in ("jcc", "jmp"):
                tgt = ins[-1][1]
                if tgt not in labels: die(where, "jump to undefined label '%s'" % tgt)
                ti = labels[tgt][0]
                if not (st <= ti < en): die(where, "jump to '%s' leaves the routine '%s'" % (tgt, g))
                ins = ins[:-1] + (ti - st,)
            body.append((ins, where, text))
        if body[-1][0][0] not in ("ret", "jmp"):
            die(body[-1][1], "routine '%s' does not end in ret/jmp (falls through)" % g)
        out.append((g, labels[g][1], body, {n: i for n, i in local.items() if n != g}))
    return out


# ----------------------------------------------------------------------------- canonical text (cross-check)
def canon(ins):
    def op(o):
        if o[0] == "reg": return "%" + o[1] + ("" if len(o) < 3 else ":" + o[2])
        if o[0] == "imm": return "$%d" % o[1]
        if o[0] == "mem": return "%d(%%%s)" % (o[2], o[1])
        return str(o)
    k = ins[0]
    if k == "mov": return "mov.%s %s,%s" % (ins[1], op(ins[2]), op(ins[3]))
    if k == "lea": return "lea %d(%%%s),%%%s" % (ins[2], ins[1], ins[3])
    if k == "alu": return "%s.%s %s,%s" % (ins[1], ins[2], op(ins[3]), op(ins[4]))
    if k in UNARY: return "%s.%s %s" % (k, ins[1], op(ins[2]))
    if k == "mul": return "mul %s" % op(ins[1])
    if k == "imul2": return "imul %s,%%%s" % (op(ins[1]), ins[2])
    if k == "mulx": return "mulx %s,%%%s,%%%s" % (op(ins[1]), ins[2], ins[3])
    if k in ("adcx", "adox"): return "%s %s,%%%s" % (k, op(ins[1]), ins[2])
    if k == "bt": return "bt.%s $%d,%s" % (ins[1], ins[2], op(ins[3]))
    if k == "setcc": return "set%s %%%s" % (ins[1], ins[2])
    if k == "push": return "push %s" % op(ins[1])
    if k == "pop": return "pop %%%s" % ins[1]
    if k in ("ret", "cpuid"): return k
    if k == "jcc": return "j%s @%d" % (ins[1], ins[2])
    if k == "jmp": return "jmp @%d" % ins[1]
    raise AssertionError(k)


def crosscheck(path, short, routines):
    """assemble with GNU as, disassemble, compare instruction by instruction"""
    tmp = tempfile.mkdtemp(prefix="asm2lean_")
    try:
        obj = os.path.join(tmp, "x.o")
        p = subprocess.run(["as", "--64", "-o", obj, path], capture_output=True, text=True)
        if p.returncode != 0: die(short, "GNU as rejects the file: %s" % p.stderr.strip()[:500])
        p = subprocess.run(["objdump", "-d", "--no-show-raw-insn", "-w", "-j", ".text", obj], capture_output=True, text=True)
        if p.returncode != 0: die(short, "objdump failed: %s" % p.stderr.strip()[:500])
        dis = {}     # symbol -> [(addr, mnemonic, operands)]
        cur = None
        for line in p.stdout.split("\n"):
            m = re.match(r"^[0-9a-f]+ <([^>]+)>:$", line)
            if m:
                cur = m.group(1); dis.setdefault(cur, []); continue
            m = re.match(r"^\s*([0-9a-f]+):\s+(\S+)\s*(.*)$", line)
            if m and cur is not None:
                dis[cur].append((int(m.group(1), 16), m.group(2), m.group(3).strip()))
        # objdump starts a new block at every label; glue the blocks of one routine together
        names = [r[0] for r in routines]
        order = sorted(((v[0][0], k) for k, v in dis.items() if v), key=lambda t: t[0])
        merged, owner = {}, None
        for (_, sym) in order:
            if sym in names: owner = sym
            if owner is None: die(short, "cross-check: code before the first exported symbol in the object file")
            merged.setdefault(owner, []).extend(dis[sym])
        for (g, gwhere, body, _) in routines:
            got = merged.get(g)
            if got is None: die(gwhere, "cross-check: '%s' not found in the object file" % g)
            got = [x for x in got if x[1] not in ("nop", "nopw", "nopl")]
            if len(got) != len(body):
                die(gwhere, "cross-check: GNU as produced %d instructions for '%s', the translator %d" % (len(got), g, len(body)))
            index = {a: i for i, (a, _, _) in enumerate(got)}
            for i, ((addr, mn, optext), (ins, where, text)) in enumerate(zip(got, body)):
                w = "%s [objdump %x: %s %s]" % (where, addr, mn, optext)
                if mn.startswith("j"):
                    m = re.match(r"^([0-9a-f]+)\b", optext)
                    if not m or int(m.group(1), 16) not in index: die(w, "cross-check: jump target not an instruction of the routine")
                    cc = mn[1:]
                    if mn == "jmp": theirs = ("jmp", index[int(m.group(1), 16)])
                    elif cc in COND: theirs = ("jcc", COND[cc], index[int(m.group(1), 16)])
                    else: die(w, "cross-check: condition code not understood")
                else:
                    if mn == "retq": mn = "ret"
                    theirs = parse_instr(mn, optext, w)
                if canon(theirs) != canon(ins):
                    die(w, "cross-check: GNU as assembled '%s', the translator produced '%s' from '%s'" % (canon(theirs), canon(ins), text))
    finally:
        shutil.rmtree(tmp, ignore_errors=True)


# ----------------------------------------------------------------------------- Lean output
def lean_int(v): return str(v) if v >= 0 else "(%d)" % v


def lean_operand(o):
    if o[0] == "reg": return "(.reg .%s)" % o[1]
    if o[0] == "imm": return "(.imm %s)" % lean_int(o[1])
    if o[0] == "mem": return "(.mem .%s %s)" % (o[1], lean_int(o[2]))
    raise AssertionError(o)


def lean_instr(ins):
    k = ins[0]
    if k == "mov": return ".mov .%s %s %s" % (ins[1], lean_operand(ins[2]), lean_operand(ins[3]))
    if k == "lea": return ".lea .%s %s .%s" % (ins[1], lean_int(ins[2]), ins[3])
    if k == "alu": return ".alu .%s .%s %s %s" % (ins[1], ins[2], lean_operand(ins[3]), lean_operand(ins[4]))
    if k in UNARY: return ".%s .%s %s" % (k, ins[1], lean_operand(ins[2]))
    if k == "mul": return ".mul %s" % lean_operand(ins[1])
    if k == "imul2": return ".imul2 %s .%s" % (lean_operand(ins[1]), ins[2])
    if k == "mulx": return ".mulx %s .%s .%s" % (lean_operand(ins[1]), ins[2], ins[3])
    if k in ("adcx", "adox"): return ".%s %s .%s" % (k, lean_operand(ins[1]), ins[2])
    if k == "bt": return ".bt .%s %d %s" % (ins[1], ins[2], lean_operand(ins[3]))
    if k == "setcc": return ".setcc .%s .%s" % (ins[1], ins[2])
    if k == "push": return ".push %s" % lean_operand(ins[1])
    if k == "pop": return ".pop .%s" % ins[1]
    if k == "ret": return ".ret"
    if k == "cpuid": return ".cpuid"
    if k == "jcc": return ".jcc .%s %d" % (ins[1], ins[2])
    if k == "jmp": return ".jmp %d" % ins[1]
    raise AssertionError(k)


def emit(all_routines, files):
    L = []
    L.append("/- GENERATED by translate/asm2lean.py from %s/{%s} of the repository's working tree; do not edit." % (ASM_DIR, ", ".join(files)))
    L.append("   One `Program` (model: JediVerif/Impl/X86.lean) per exported routine: macros expanded, labels")
    L.append("   resolved to instruction indices; the comment on each line is `index source-line: source text`. -/")
    L.append("import JediVerif.Impl.X86")
    L.append("")
    L.append("namespace Jedi.Gen.AsmX86")
    L.append("open Jedi.X86")
    L.append("")
    for (short, routines) in all_routines:
        L.append("/-! ## %s -/" % short)
        L.append("")
        for (g, gwhere, body, local) in routines:
            L.append("/-- `%s` (%s), %d instructions%s -/" % (g, gwhere, len(body),
                     "".join("; label %s = %d" % (n[len(g):] if n.startswith(g) else n, i) for n, i in sorted(local.items(), key=lambda t: (t[1], t[0])))))
            L.append("def %s : Program := [" % g)
            for i, (ins, where, text) in enumerate(body):
                src = " ".join(text.split())
                L.append("  %s%s  -- %d %s: %s" % (lean_instr(ins), "," if i + 1 < len(body) else "", i, where.split(" (")[0].split(":")[-1], src))
            L.append("]")
            L.append("")
    L.append("/-- every exported routine, by symbol name -/")
    L.append("def routines : List (String × Program) := [")
    allr = [g for (_, rs) in all_routines for (g, _, _, _) in rs]
    for i, g in enumerate(allr):
        L.append("  (\"%s\", %s)%s" % (g, g, "," if i + 1 < len(allr) else ""))
    L.append("]")
    L.append("")
    L.append("def lookup (sym : String) : Option Program := (routines.find? (·.1 == sym)).map (·.2)")
    L.append("")
    L.append("end Jedi.Gen.AsmX86")
    return "\n".join(L) + "\n"


def main(argv):
    args = [a for a in argv[1:] if not a.startswith("--")]
    flags = [a for a in argv[1:] if a.startswith("--")]
    for f in flags:
        if f != "--no-crosscheck":
            print("asm2lean: unknown option %s" % f, file=sys.stderr); return 2
    repo = args[0] if len(args) > 0 else "/repo"
    out = args[1] if len(args) > 1 else os.path.join(VERIF, "lean", "JediVerif", "Gen", "AsmX86.lean")
    d = os.path.join(repo, ASM_DIR)
    try:
        if not os.path.isdir(d): die(d, "directory not found")
        files = sorted(f for f in os.listdir(d) if f.endswith(".s") or f.endswith(".S"))
        if not files: die(d, "no assembly sources")
        do_cc = "--no-crosscheck" not in flags and shutil.which("as") and shutil.which("objdump")
        all_routines, seen = [], {}
        n = 0
        for f in files:
            if f.endswith(".S"): die(os.path.join(ASM_DIR, f), "preprocessed assembly (.S) not supported")
            short = os.path.join(ASM_DIR, f)
            items, globls = parse_file(os.path.join(d, f), short)
            routines = build_routines(items, globls, short)
            for r in routines:
                if r[0] in seen: die(r[1], "symbol '%s' already defined at %s" % (r[0], seen[r[0]]))
                seen[r[0]] = r[1]
                n += len(r[2])
            if do_cc: crosscheck(os.path.join(d, f), short, routines)
            all_routines.append((short, routines))
        text = emit(all_routines, files)
    except AsmError as e:
        print("asm2lean: ERROR %s" % e, file=sys.stderr)
        return 1
    old = None
    if os.path.exists(out):
        with open(out, encoding="utf-8") as fh: old = fh.read()
    if old != text:
        with open(out, "w", encoding="utf-8") as fh: fh.write(text)
    print("asm2lean: %d routines, %d instructions from %d files -> %s%s%s" % (
        len(seen), n, len(files), os.path.relpath(out, VERIF), "" if old != text else " (unchanged)",
        " [cross-checked against GNU as/objdump]" if do_cc else " [cross-check skipped]"))
    return 0


if __name__ == "__main__":
    sys.exit(main(sys.argv))
